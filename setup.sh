#!/bin/sh
# setup_cmd: builds /verif/.venv offline (python 3.12 of the repo's own venv + z3-solver, cvc5, sympy,
# jsonschema from the local wheelhouse; a .pth adds /venv's site-packages so numpy/pynurbs/matplotlib
# are the very packages the repo's test-suite uses).  Idempotent.
set -e
cd "$(dirname "$0")"
V=.venv
if [ -x "$V/bin/python" ] && "$V/bin/python" -c "import z3, cvc5, sympy, jsonschema, numpy, pynurbs" 2>/dev/null; then
  echo "setup: .venv ok"; exit 0
fi
rm -rf "$V"
/venv/bin/python -m venv "$V"
PIP_NO_INDEX=1 "$V/bin/python" -m pip install -q --no-index --find-links /opt/veriftools/wheels z3-solver cvc5 sympy jsonschema
SP=$("$V/bin/python" -c "import sysconfig; print(sysconfig.get_paths()['purelib'])")
echo "import site; site.addsitedir('/venv/lib/python3.12/site-packages')" > "$SP/zz_repo.pth"
"$V/bin/python" -c "import z3, cvc5, sympy, jsonschema, numpy, pynurbs, matplotlib; print('setup: built', z3.get_version_string(), numpy.__version__)"
