"""Certificates for obligations with the nonlinear hypothesis c^2 + s^2 = 1 (DESIGN 2.5).

sympy computes the cofactor q with  expr = q * (c^2 + s^2 - 1); z3 then checks that *pure
polynomial identity*.  sympy is not trusted: only the solver's check of its output counts."""
from __future__ import annotations

import z3


def _to_sympy(t, syms):
    import sympy

    if z3.is_rational_value(t):
        return sympy.Rational(t.numerator_as_long(), t.denominator_as_long())
    if z3.is_int_value(t):
        return sympy.Integer(t.as_long())
    if z3.is_const(t):
        name = t.decl().name()
        if name not in syms:
            syms[name] = (sympy.Symbol("v%d" % len(syms)), t)
        return syms[name][0]
    k = t.decl().kind()
    args = [_to_sympy(a, syms) for a in t.children()]
    if k == z3.Z3_OP_ADD:
        return sum(args[1:], args[0])
    if k == z3.Z3_OP_MUL:
        r = args[0]
        for a in args[1:]:
            r = r * a
        return r
    if k == z3.Z3_OP_SUB:
        r = args[0]
        for a in args[1:]:
            r = r - a
        return r
    if k == z3.Z3_OP_UMINUS:
        return -args[0]
    if k == z3.Z3_OP_DIV:
        return args[0] / args[1]
    if k == z3.Z3_OP_POWER:
        return args[0] ** args[1]
    if k == z3.Z3_OP_TO_REAL:
        return args[0]
    raise ValueError(f"unsupported term in certificate: {t.decl().name()}")


def _from_sympy(e, back):
    import sympy

    if e.is_Rational:
        return z3.Q(int(e.p), int(e.q))
    if e.is_Symbol:
        return back[e]
    if e.is_Add:
        r = _from_sympy(e.args[0], back)
        for a in e.args[1:]:
            r = r + _from_sympy(a, back)
        return r
    if e.is_Mul:
        r = _from_sympy(e.args[0], back)
        for a in e.args[1:]:
            r = r * _from_sympy(a, back)
        return r
    if e.is_Pow and e.exp.is_Integer and e.exp >= 0:
        b = _from_sympy(e.base, back)
        r = z3.RealVal(1)
        for _ in range(int(e.exp)):
            r = r * b
        return r
    raise ValueError(f"unsupported sympy node {e}")


def prove_mod_circle(expr, c, s, timeout_ms=20000):
    """True iff  expr == 0  follows from  c*c + s*s == 1, witnessed by a cofactor checked by z3."""
    import sympy

    syms = {}
    e = sympy.expand(_to_sympy(z3.simplify(expr), syms))
    sc = _to_sympy(c, syms)
    ss = _to_sympy(s, syms)
    back = {v[0]: v[1] for v in syms.values()}
    rel = sc**2 + ss**2 - 1
    gens = [v[0] for v in syms.values()]
    q, r = sympy.div(sympy.Poly(e, *gens), sympy.Poly(rel, *gens))
    if not r.is_zero:
        # try lexicographic reduction with c first
        q, r = sympy.reduced(e, [rel], sc, ss, *[g for g in gens if g not in (sc, ss)])
        q = q[0]
        if sympy.expand(r) != 0:
            return False, "no cofactor (remainder non-zero)"
        qe = sympy.expand(q)
    else:
        qe = q.as_expr()
    zq = _from_sympy(sympy.expand(qe), back) if qe != 0 else z3.RealVal(0)
    sol = z3.Solver()
    sol.set("timeout", timeout_ms)
    sol.add(z3.Not(expr == zq * (c * c + s * s - 1)))
    res = sol.check()
    return res == z3.unsat, f"cofactor with {len(sympy.Add.make_args(qe))} terms, identity check {res}"
