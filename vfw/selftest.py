"""Mutation self-test (DESIGN 2.8): property-breaking edits applied to a scratch copy of the repo
(outside /repo and /verif, removed afterwards) must turn the named property red; harmless edits
must stay green.  Also runs the seeded changes under /verif/seeded/<id>/patch.diff."""
from __future__ import annotations

import json
import os
import shutil
import subprocess
import sys
import tempfile
import time

ROOT = os.path.dirname(os.path.dirname(os.path.abspath(__file__)))
REPO = "/repo"

# (name, file, old, new, {prop: expected exit code}, optional --only filters)
MUTATIONS = [
    ("lines-swapped-cross", "curve.py", "param0 = diff0.cross(vector1) / denom", "param0 = diff0.cross(vector0) / denom", {"C14": 1}, ["lines"]),
    ("lines-range-strict", "curve.py", "if param0 < 0 or 1 < param0:", "if param0 <= 0 or 1 < param0:", {"C14": 1}, ["lines"]),
    ("and-lines-empty-marker", "curve.py", "return (params,) if len(params) else None", "return (params,) if len(params) else tuple()", {"C14": 1}, ["and-lines"]),
    ("intersection-flag-filter", "jordancurve.py", "if ui is None or (0 < ui and ui < 1) or (0 < vi and vi < 1):", "if ui is None or (0 < ui and ui < 1) and (0 < vi and vi < 1):", {"C14": 1}, ["assembly"]),
    ("horner-order", "curve.py", "            value *= node\n            value += coef", "            value += coef\n            value *= node", {"C18": 1}, ["eval"]),
    ("caract-sign", "curve.py", "matrix[i, j] = -val if (degree + i + j) % 2 else val", "matrix[i, j] = -val if (i + j) % 2 else val", {"C18": 1}, ["eval", "memo"]),
    ("derivative-memo-key", "curve.py", "Derivate.__non_rat_bezier_once[degree] = tuple(matrix)", "Derivate.__non_rat_bezier_once[max(degree, 2)] = tuple(matrix)", {"C18": 1}, ["derivate", "memo"]),
    ("box-from-endpoints", "curve.py", "xmin = min(point[0] for point in self.ctrlpoints)", "xmin = min(self.ctrlpoints[0][0], self.ctrlpoints[-1][0])", {"C18": 1}, ["hull"]),
    ("quadrature-node-count", "curve.py", "nnodes = 3 + expx + expy + curve.degree\n        assert isinstance(nnodes, int)\n        assert nnodes >= 0\n        assert expx >= 0", "nnodes = 2 + expx + expy + curve.degree\n        assert isinstance(nnodes, int)\n        assert nnodes >= 0\n        assert expx >= 0", {"C04": 1}, ["segment"]),
    ("green-divisor", "shape.py", "return total / (1 + expx)", "return total / (2 + expx)", {"C04": 1}, ["sum", "polygon"]),
    ("jordan-sum-skips-first", "jordancurve.py", "        total = 0\n        for bezier in jordan.segments:\n            total += IntegratePlanar.vertical(bezier, expx, expy, nnodes)", "        total = 0\n        for bezier in jordan.segments[1:]:\n            total += IntegratePlanar.vertical(bezier, expx, expy, nnodes)", {"C04": 1}, ["sum", "polygon"]),
    ("float-half", "polygon.py", "self._x = fractions.Fraction(x).limit_denominator(10**9)", "self._x = fractions.Fraction(x).limit_denominator(1e9)", {"C13": 1}, ["point-init", "rc-limit"]),
    ("point-add-float", "polygon.py", "    def __add__(self, other: Point2D) -> Point2D:\n        new = self.__copy__()", "    def __add__(self, other: Point2D) -> Point2D:\n        new = self.__copy__() * 1.0", {"C13": 1}, ["point-arith"]),
    ("vertices-by-value", "jordancurve.py", "                if id(point) not in ids:\n                    ids.append(id(point))", "                if point not in vertices:\n                    ids.append(id(point))", {"C17": 1}, ["constructors"]),
    ("wraparound-check-dropped", "jordancurve.py", "        for i, bezi in enumerate(beziers):\n            j = (i + 1) % nbezs", "        for i, bezi in enumerate(beziers[:-1]):\n            j = (i + 1) % nbezs", {"C17": 1}, ["reject", "constructors"]),
    ("move-over-segment-points", "jordancurve.py", "        point = Point2D(*point)\n        for vertex in self.vertices:\n            vertex.move(point)", "        point = Point2D(*point)\n        for segment in self.segments:\n            for vertex in segment.ctrlpoints:\n                vertex.move(point)", {"C09": 1}, ["C09.curve"]),
    ("rotate-degrees-inverted", "jordancurve.py", "angle *= np.pi / 180", "angle *= 180 / np.pi", {"C09": 1}, ["C09.curve"]),
    ("cache-not-reset-on-scale", "jordancurve.py", "            vertex.scale(xscale, yscale)\n        self.__lenght = None", "            vertex.scale(xscale, yscale)", {"C10": 1}, ["cache"]),
    ("deepcopy-reuses-points", "jordancurve.py", "points = list(copy(point) for point in segment.ctrlpoints)", "points = list(point for point in segment.ctrlpoints)", {"C08": 1}, ["deepcopy"]),
    ("invert-keeps-order", "jordancurve.py", "        for i in range(nsegs - 1, -1, -1):\n            new_segments.append(segments[i].invert())", "        for i in range(nsegs):\n            new_segments.append(segments[i].invert())", {"C06": 1}, ["invert"]),
]

MUTATIONS += [
    ("sub-without-complement", "shape.py", "        return self & (~value)", "        return self & value", {"C01": 1}, ["dispatch[sub", "dispatch[xor"]),
    ("xor-with-and", "shape.py", "        return (self - other) | (other - self)", "        return (self - other) & (other - self)", {"C01": 1}, ["dispatch[xor"]),
    ("or-shortcut-wrong-operand", "shape.py", "        if other in self:\n            return copy(self)\n        if self in other:\n            return copy(other)\n        new_jordans = FollowPath.or_shapes", "        if other in self:\n            return copy(other)\n        if self in other:\n            return copy(other)\n        new_jordans = FollowPath.or_shapes", {"C01": 1}, ["dispatch[or"]),
    ("whole-sub-returns-other", "shape.py", "    def __sub__(self, other: BaseShape) -> BaseShape:\n        return ~other", "    def __sub__(self, other: BaseShape) -> BaseShape:\n        return other", {"C01": 1}, ["dispatch[sub,Whole"]),
    ("and-empty-result-whole", "shape.py", "        if len(new_jordans) == 0:\n            return EmptyShape()", "        if len(new_jordans) == 0:\n            return WholeShape()", {"C01": 1}, ["dispatch[and"]),
    ("or-returns-self-not-copy", "shape.py", "        if isinstance(other, EmptyShape):\n            return copy(self)\n        if other in self:\n            return copy(self)\n        if self in other:\n            return copy(other)\n        new_jordans = FollowPath.or_shapes", "        if isinstance(other, EmptyShape):\n            return self\n        if other in self:\n            return copy(self)\n        if self in other:\n            return copy(other)\n        new_jordans = FollowPath.or_shapes", {"C08": 1}, ["dispatch[or"]),
    ("singleton-second-instance", "shape.py", "        if cls.__instance is None:\n            cls.__instance = super(SingletonShape, cls).__new__(cls)\n        return cls.__instance", "        cls.__instance = super(SingletonShape, cls).__new__(cls)\n        return cls.__instance", {"C06": 1}, ["singletons"]),
]

MUTATIONS += [
    ("contains-point-wind-eq1", "shape.py", "            return wind > 0 if boundary else wind == 1", "            return wind == 1 if boundary else wind == 1", {"C02": 1}, ["C02.table"]),
    ("contains-point-orientation-flipped", "shape.py", "        if float(jordan) > 0:\n            return wind > 0 if boundary else wind == 1", "        if float(jordan) < 0:\n            return wind > 0 if boundary else wind == 1", {"C02": 1}, ["C02.table"]),
    ("connected-any-for-all", "shape.py", "        for subshape in self.subshapes:\n            if not subshape.contains_point(point, boundary):\n                return False\n        return True", "        for subshape in self.subshapes:\n            if subshape.contains_point(point, boundary):\n                return True\n        return False", {"C02": 1}, ["compose[Connected._contains_point"]),
    ("disjoint-drops-boundary-flag", "shape.py", "        for subshape in self.subshapes:\n            if subshape.contains_point(point, boundary):\n                return True\n        return False", "        for subshape in self.subshapes:\n            if subshape.contains_point(point):\n                return True\n        return False", {"C02": 1}, ["compose[Disjoint._contains_point"]),
    ("winding-half-sign", "jordancurve.py", "                    return 0.5 if float(jordan) > 0 else -0.5", "                    return 0.5 if float(jordan) < 0 else -0.5", {"C02": 1}, ["winding-structure"]),
    ("box-margin-sign", "polygon.py", "        if point[0] < self.lowpt[0] - self.dx:", "        if point[0] < self.lowpt[0] + self.dx:", {"C02": 1}, ["L0.box", "hull"]),
    ("table-flipped-first-test", "shape.py", "        if areaA < 0 and areaB > 0:\n            return False", "        if areaA > 0 and areaB < 0:\n            return False", {"C03": 1}, ["C03.table"]),
    ("table-dropped-conjunct", "shape.py", "            return jordana in self and jordanb not in other", "            return jordana in self", {"C03": 1}, ["C03.table"]),
    ("table-area-comparison", "shape.py", "        if areaA > areaB or jordana not in self:", "        if areaA < areaB or jordana not in self:", {"C03": 1}, ["C03.table"]),
    ("contains-shape-missing-restore", "shape.py", "                    finally:\n                        subshape.invert()", "                    finally:\n                        pass", {"C03": 1, "C11": 1}, ["connected-in-simple", "contains-shape"]),
    ("disjoint-contains-all-for-any", "shape.py", "            for subshape in self.subshapes:\n                if other in subshape:\n                    return True\n            return False", "            for subshape in self.subshapes:\n                if other not in subshape:\n                    return False\n            return True", {"C03": 1}, ["compose[Disjoint._contains_shape"]),
    ("whole-contained-in-defined", "shape.py", "        if isinstance(other, WholeShape):\n            return False\n        return self._contains_shape(other)", "        if isinstance(other, WholeShape):\n            return True\n        return self._contains_shape(other)", {"C03": 1}, ["C03.dispatch", "singletons"]),
    ("connected-sort-not-reversed", "shape.py", "        values = sorted(zip(areas, values), key=algori, reverse=True)\n        values = tuple(val[1] for val in values)", "        values = sorted(zip(areas, values), key=algori)\n        values = tuple(val[1] for val in values)", {"C19": 1}, ["C19.setter"]),
    ("disjoint-keeps-empty-entries", "shape.py", "        while EmptyShape() in subshapes:\n            subshapes.remove(EmptyShape())", "        pass", {"C19": 1}, ["C19.new"]),
    ("shape-move-skips-holes", "shape.py", "        point = Point2D(*point)\n        for jordan in self.jordans:\n            jordan.move(point)", "        point = Point2D(*point)\n        for jordan in self.jordans[:1]:\n            jordan.move(point)", {"C09": 1}, ["rc-histories", "C09.shape"]),
    ("plot-curve3-count", "plot.py", "        commands += [Path.CURVE3] * 2", "        commands += [Path.CURVE3] * 3", {"C20": 1}, ["C20.path"]),
    ("plot-fill-condition-inverted", "plot.py", "            if float(connected) > 0:", "            if float(connected) < 0:", {"C20": 1}, ["plot-shape"]),
    ("square-half-side-dropped", "primitive.py", "        side /= 2\n", "        side /= 1\n", {"C16": 1}, ["C16.square"]),
    ("circle-validation-weakened", "primitive.py", "            assert ndivangle >= 4", "            assert ndivangle >= 3", {"C16": 1}, ["C16.invalid"]),
    ("simple-adopts-curve-without-copy", "shape.py", "        self.__jordancurve = copy(other)", "        self.__jordancurve = other", {"C08": 1}, ["C16.polygon", "C19.new", "rc-grid"]),
    ("empty-or-without-copy", "shape.py", "    def __or__(self, other: BaseShape) -> BaseShape:\n        return copy(other)\n\n    def __and__(self, other: BaseShape) -> BaseShape:\n        return self", "    def __or__(self, other: BaseShape) -> BaseShape:\n        return other\n\n    def __and__(self, other: BaseShape) -> BaseShape:\n        return self", {"C08": 1}, ["dispatch[or,Empty", "singletons"]),
    ("split-filter-removed", "jordancurve.py", "            if abs(node) < 1e-6 or abs(node - 1) < 1e-6:", "            if False:", {"C15": 1}, ["split-filter"]),
    ("memo-entry-mutable", "curve.py", "            matrix = tuple(tuple(line) for line in matrix)\n            Math.__caract_matrix[degree] = matrix", "            matrix = [list(line) for line in matrix]\n            Math.__caract_matrix[degree] = matrix", {"C10": 1}, ["memo"]),
    ("validate-after-first-mutation", "jordancurve.py", "        float(xscale)\n        float(yscale)\n        for vertex in self.vertices:\n            vertex.scale(xscale, yscale)", "        float(xscale)\n        for vertex in self.vertices:\n            vertex._x *= xscale\n        float(yscale)\n        for vertex in self.vertices:\n            vertex._y *= yscale", {"C11": 1}, ["validate"]),
    ("winding-about-origin", "jordancurve.py", "            wind += IntegratePlanar.winding_number(bezier, center, nnodes)", "            wind += IntegratePlanar.winding_number(bezier, (0.0, 0.0), nnodes)", {"C12": 1, "C02": 1}, ["winding-structure"]),
    ("point-eq-relative", "polygon.py", "        if abs(self[0] - other[0]) > 1e-9:\n            return False", "        if abs(self[0] - other[0]) > 1e-6:\n            return False", {"C07": 1}, ["L0.point-eq"]),
]

MUTATIONS += [
    ("or-flags-swapped", "shape.py", "            shapea, shapeb, closed=True, inside=False\n        )", "            shapea, shapeb, closed=False, inside=True\n        )", {"C01": 1}, ["recombine-glue", "rc-grid[or,frac"]),
    ("pursue-no-switch", "shape.py", "            if len(possibles) == 0:\n                index_segment += 1\n                continue", "            if True:\n                index_segment += 1\n                continue", {"C01": 1}, ["pursue-path"]),
    ("regroup-externals-dropped", "shape.py", "    return (connected,) + DivideConnecteds(externals)", "    return (connected,)", {"C06": 1}, ["regroup"]),
]

HARMLESS = [
    # the public split() already passes sorted parameters: sorting again in __split_segment is redundant (equivalent mutant)
    ("split-unsorted-nodes", "jordancurve.py", "        nodes = tuple(sorted(nodes))\n        segment = self.segments[index]", "        nodes = tuple(nodes)\n        segment = self.segments[index]", {"C15": 0}, ["jordan-split"]),
    ("rename-local", "curve.py", "        denom = vector0.cross(vector1)\n        if denom != 0:  # Lines are not parallel\n            param0 = diff0.cross(vector1) / denom\n            param1 = diff0.cross(vector0) / denom",
     "        den = vector0.cross(vector1)\n        denom = den\n        if den != 0:  # Lines are not parallel\n            param0 = diff0.cross(vector1) / den\n            param1 = diff0.cross(vector0) / den", {"C14": 0}, ["lines"]),
    ("tuple-to-list", "curve.py", "        return tuple(results)", "        return tuple(list(results))", {"C18": 0}, ["eval"]),
    ("extra-copy", "jordancurve.py", "    def __invert__(self) -> JordanCurve:\n        return self.__copy__().invert()", "    def __invert__(self) -> JordanCurve:\n        return self.__copy__().__copy__().invert()", {"C06": 0}, ["invert"]),
]


MUTATIONS += [
    ("rotation-index-sign", "shape.py", "            j = (i + rotation) % nelems", "            j = (i - rotation) % nelems", {"C05": 1}, ["is-rotation[", "filter-rotations"]),
    ("rotation-length-check-dropped", "shape.py", "        if len(oneobj) != len(other):\n            return False\n        rotation = 0", "        if len(oneobj) < len(other):\n            return False\n        rotation = 0", {"C05": 1}, ["is-rotation[", "filter-rotations"]),
    ("filter-rotations-compares-last-only", "shape.py", "            for fline in filtered:\n                if FollowPath.is_rotation(line, fline):", "            for fline in filtered[-1:]:\n                if FollowPath.is_rotation(line, fline):", {"C05": 1}, ["filter-rotations"]),
]

def scratch_repo():
    d = tempfile.mkdtemp(prefix="vf-selftest-")
    shutil.copytree(os.path.join(REPO, "src"), os.path.join(d, "src"))
    return d


def run_check(repo, prop, only, tier="quick"):
    env = dict(os.environ)
    env["VF_REPO"] = repo
    env["VF_EVIDENCE_DIR"] = os.path.join(repo, "evidence")
    env["VF_REPLAY_DIR"] = os.path.join(repo, "replays")
    cmd = [os.path.join(ROOT, "vf"), "check", prop, "--tier", tier]
    for o in only or []:
        cmd += ["--only", o]
    try:
        p = subprocess.run(cmd, env=env, capture_output=True, text=True, timeout=2400)
    except subprocess.TimeoutExpired as e:
        return 124, "TIMEOUT of the whole check\n" + str(e.stdout or "")[-2000:]
    return p.returncode, p.stdout + p.stderr


def apply_edit(repo, fn, old, new):
    p = os.path.join(repo, "src", "shapepy", fn)
    s = open(p).read()
    if s.count(old) != 1:
        return False
    open(p, "w").write(s.replace(old, new))
    return True


def _one(item, tier):
    (name, fn, old, new, expect, filt), kind = item
    bad = 0
    lines = []
    d = scratch_repo()
    try:
        if not apply_edit(d, fn, old, new):
            return 1, [f"[selftest] {name}: PATTERN-NOT-FOUND in {fn} (mutation list out of date)"]
        for prop, want in expect.items():
            t0 = time.time()
            code, out = run_check(d, prop, filt, tier)
            ok = code == want
            viol = [l for l in out.splitlines() if l.startswith("  violated:")]
            lines.append(f"[selftest] {kind:8s} {name:32s} {prop} exit={code} want={want} {'OK' if ok else 'MISSED' if want else 'FALSE-ALARM'} ({time.time()-t0:.0f}s) {viol[:2]}")
            if not ok:
                bad += 1
                lines.extend(out.splitlines()[-12:])
    finally:
        shutil.rmtree(d, ignore_errors=True)
    return bad, lines


def main(only=None, tier="quick"):
    from concurrent.futures import ThreadPoolExecutor

    bad = 0
    items = [(m, "mutation") for m in MUTATIONS] + [(m, "harmless") for m in HARMLESS]
    items = [it for it in items if not only or any(o in it[0][0] for o in only)]
    with ThreadPoolExecutor(max_workers=4) as ex:
        for b, lines in ex.map(lambda it: _one(it, tier), items):
            bad += b
            print("\n".join(lines), flush=True)
    # seeded changes
    sdir = os.path.join(ROOT, "seeded")
    for sid in sorted(os.listdir(sdir)) if os.path.isdir(sdir) else []:
        if only and not any(o in sid for o in only):
            continue
        meta = json.load(open(os.path.join(sdir, sid, "meta.json")))
        d = scratch_repo()
        try:
            p = subprocess.run(["patch", "-p1", "-d", d, "-i", os.path.join(sdir, sid, "patch.diff")], capture_output=True, text=True)
            if p.returncode != 0:
                print(f"[selftest] seeded {sid}: patch does not apply: {p.stdout[-300:]}")
                bad += 1
                continue
            for prop in meta.get("detected_by", [meta["property"]]):
                t0 = time.time()
                code, out = run_check(d, prop, meta.get("only"), meta.get("tier", tier))
                want = 1 if meta.get("expected_detected", True) else 0
                viol = [l for l in out.splitlines() if l.startswith("  violated:")]
                print(f"[selftest] seeded   {sid:32s} {prop} exit={code} want={want} {'OK' if code == want else 'MISSED'} ({time.time()-t0:.0f}s) {viol[:2]}")
                if code != want:
                    bad += 1
        finally:
            shutil.rmtree(d, ignore_errors=True)
    print(f"[selftest] {'all as expected' if not bad else str(bad) + ' unexpected'}")
    return 0 if not bad else 1
