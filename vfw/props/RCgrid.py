"""Bounded stand-in on the grid zoo: exact set-algebra oracle for boolean operators, containment, measures,
structure, equality and operand preservation on rectilinear polygons (C01, C02, C03, C04, C05, C06, C07, C08,
C10, C13, C19).  Always reported as *bounded*, never as proved."""
from __future__ import annotations

import copy as _copy
import os
from fractions import Fraction

from shapepy.shape import (BaseShape, ConnectedShape, DefinedShape, DisjointShape, EmptyShape, IntegrateShape, SimpleShape,
                           WholeShape)

from .. import zoo
from ..harness import OpTimeout, bounded, watchdog
from ..oracle import GridRegion
from .rc_common import (OPS, SCALE, cast, coords_of, desc_of, exact, q, structure, to_shape, truth_structure, well_formed)

BOUND = "grid zoo: operands are unions of unit cells on two (three) mutually offset lattices, board <= 5x5, hand-picked shapes (square, L, U, T, ring, ring+island, multi-component, complements) x placements + seeded random cell sets; numeric types int/Fraction/float; all cell centres of the bounding window as query points"


def _seed():
    return int(os.environ.get("VERIF_SEED", "0") or 0)


def _frac_ok(lib_op, A, B, T):
    """the same case with exact Fraction coordinates gives the exact truth area (so the float failure is a rounding effect)"""
    try:
        R = lib_op(to_shape(A, "frac"), to_shape(B, "frac"))
        got = IntegrateShape.area(R) if isinstance(R, DefinedShape) else Fraction(0)
        want = T.area() if not (T.is_empty() or T.is_whole()) else Fraction(0)
        return got == want
    except Exception:  # noqa: BLE001
        return False


def _loop_in_closed_region(loop, region):
    """every point of the closed polyline lies in the closure of the region: for each fine lattice edge of the loop
    one of the two adjacent fine cells belongs to the region (lattices are offset, so both agree unless the edge
    runs along the region's own boundary)"""
    from ..oracle import P as PITCH

    n = len(loop)
    for i in range(n):
        (x0, y0), (x1, y1) = loop[i], loop[(i + 1) % n]
        steps = int(max(abs(x1 - x0), abs(y1 - y0)) * PITCH)
        for k in range(steps):
            mx = x0 + (x1 - x0) * Fraction(2 * k + 1, 2 * steps)
            my = y0 + (y1 - y0) * Fraction(2 * k + 1, 2 * steps)
            eps = Fraction(1, 4 * PITCH)
            if x0 == x1:
                sides = [(mx - eps, my), (mx + eps, my)]
            else:
                sides = [(mx, my - eps), (mx, my + eps)]
            if not any(region.contains(p) for p in sides):
                return False
    return True


def sweep(h, typ, ops, checks, tier):
    """checks: subset of {'member','lib-in','moments','structure','wf','eq','operands','subset','singleton-laws'}"""
    pairs = zoo.grid_pairs(tier, _seed())
    if "eq" in checks and tier != "quick" and typ != "float":
        pairs = pairs[::4]  # `==` in exact Fractions costs seconds per comparison: every 4th thorough pair
    for label, A, B in pairs:
        if not (A.fits() and B.fits()):
            continue
        for opname in ops:
            lib_op, truth_op = OPS[opname]
            SA, SB = to_shape(A, typ), to_shape(B, typ)
            ida = coords_of(SA, SB)
            fa0, fb0 = IntegrateShape.area(SA) if isinstance(SA, DefinedShape) else None, IntegrateShape.area(SB) if isinstance(SB, DefinedShape) else None
            T = truth_op(A, B)
            where = f"{label} op={opname} type={typ}"
            try:
                with watchdog(20):
                    R = lib_op(SA, SB)
            except OpTimeout as e:
                h.ensure("operator-returns", False, detail=f"{where}: {e}")
                continue
            except Exception as e:  # noqa: BLE001
                if typ == "float" and opname == "xor" and _frac_ok(lib_op, A, B, T):
                    h.finding("float-operands-reused-after-split", f"{where}: {type(e).__name__} (A ^ B evaluates A-B and B-A on the same, already split float operands; the same case with Fraction coordinates is correct)")
                else:
                    h.ensure("operator-does-not-raise", False, detail=f"{where}: {type(e).__name__}: {e}")
                continue
            h.case((opname, truth_structure(T)[0], truth_structure(A)[0], truth_structure(B)[0], A.unbounded, B.unbounded), True)
            if len(h.samples) < 2:
                h.sample(dict(case=where, truth_area=str(T.area()), result=type(R).__name__))
            s = SCALE[typ]
            if "member" in checks or "lib-in" in checks:
                dR = desc_of(R)
                for p in (A | B).cell_centres() if not (A.unbounded or B.unbounded) else (~((~A) & (~B)) if False else GridRegion((A.cells if not A.unbounded else (~A).cells) | (B.cells if not B.unbounded else (~B).cells))).cell_centres():
                    t = T.contains(p)
                    if t is None:
                        continue
                    qp = (p[0] * s, p[1] * s)
                    if "member" in checks:
                        got = dR.contains(qp)
                        if got is not None:
                            h.ensure("result-region-is-set-theoretic-result", got == t, detail=f"{where}: point {qp} truth {t}, region of result {got}")
                    if "lib-in" in checks:
                        lp = q(p, typ)
                        try:
                            got2 = lp in R
                            got3 = R.contains_point(lp, False) if isinstance(R, DefinedShape) else got2
                        except Exception as e:  # noqa: BLE001
                            h.ensure("membership-query-does-not-raise", False, detail=f"{where}: {lp} in result: {type(e).__name__}: {e}")
                            continue
                        h.ensure("library-membership-agrees-with-truth", got2 == t and got3 == t, detail=f"{where}: point {lp} truth {t}, `in` {got2}, open {got3}")
            if "moments" in checks:
                for (a, b) in ((0, 0), (1, 0), (0, 1), (2, 0), (1, 1), (0, 2)):
                    want = T.moment(a, b) * s ** (a + b + 2)
                    if isinstance(R, DefinedShape):
                        got = IntegrateShape.polynomial(R, a, b)
                    else:
                        got = Fraction(0)  # Empty / Whole count as 0 in the identities
                        want = Fraction(0) if (T.is_empty() or T.is_whole()) else want
                    if typ == "float":
                        ok = abs(float(got) - float(want)) <= 1e-9 * (1 + abs(float(want)))
                    else:
                        ok = got == want and (isinstance(got, (int, Fraction)) and (not isinstance(got, Fraction) or (type(got.numerator) is int and type(got.denominator) is int)))
                    h.ensure("moments-equal-exact-region-integrals", ok, detail=f"{where}: moment({a},{b}) = {got!r}, exact {want}")
            if "structure" in checks and not T.has_pinch() and not (~T).has_pinch():
                # (a region whose pieces touch in single points has no canonical decomposition: only the
                #  point set, measures and well-formedness are checked for it)
                ts, rs = truth_structure(T), structure(R)
                h.ensure("kind-and-component/hole-counts-match-the-region", ts == rs, detail=f"{where}: truth {ts}, result {rs}")
                if T.is_empty():
                    h.ensure("empty-result-is-the-singleton", R is EmptyShape(), detail=where)
                if T.is_whole():
                    h.ensure("whole-result-is-the-singleton", R is WholeShape(), detail=where)
            if "wf" in checks:
                probs = well_formed(R)
                h.ensure("result-well-formed", not probs, detail=f"{where}: {probs[:3]}")
            if "eq" in checks and not T.has_pinch() and not (~T).has_pinch():
                for order in (None, "reversed"):
                    E = to_shape(T, typ, order)
                    try:
                        e1, e2 = (R == E), (E == R)
                    except Exception as e:  # noqa: BLE001
                        h.ensure("equality-returns-bool", False, detail=f"{where}: == raised {type(e).__name__}: {e}")
                        continue
                    h.ensure("result-equals-directly-constructed-shape", e1 is True and e2 is True, detail=f"{where}: R==E {e1}, E==R {e2} (order={order})")
            if "reuse" in checks:
                # the operands have now been split at their crossings: every operator on the *same* objects must
                # still give the set-theoretic result (C10: answers do not depend on earlier calls)
                for op2, (lib2, truth2) in OPS.items():
                    T2 = truth2(A, B)
                    try:
                        with watchdog(20):
                            R2 = lib2(SA, SB)
                    except Exception as e:  # noqa: BLE001
                        if typ == "float":
                            h.finding("float-operands-reused-after-split", f"{where} then {op2} on the same float operands: {type(e).__name__}")
                        else:
                            h.ensure("operator-on-already-used-operands-does-not-raise", False, detail=f"{where} then {op2}: {type(e).__name__}: {e}")
                        continue
                    got = IntegrateShape.area(R2) if isinstance(R2, DefinedShape) else Fraction(0)
                    want = T2.area() * s * s if not (T2.is_empty() or T2.is_whole()) else Fraction(0)
                    same = (got == want) if typ != "float" else abs(float(got) - float(want)) <= 1e-9 * (1 + abs(float(want)))
                    if typ == "float" and not same:
                        h.finding("float-operands-reused-after-split", f"{where} then {op2} on the same float operands: area {got}, exact {want}")
                        continue
                    h.ensure("operator-on-already-used-operands-gives-the-same-region", same and (structure(R2)[0] in ("Empty", "Whole")) == (T2.is_empty() or T2.is_whole()),
                             detail=f"{where} then {op2} on the same objects: area {got}, exact {want}")
            if "operands" in checks:
                for nm, S0, reg, f0 in (("A", SA, A, fa0), ("B", SB, B, fb0)):
                    if not isinstance(S0, DefinedShape):
                        continue
                    d0 = desc_of(S0)
                    bad = None
                    for p in reg.cell_centres():
                        t = reg.contains(p)
                        g = d0.contains((p[0] * s, p[1] * s))
                        if t is not None and g is not None and g != t:
                            bad = p
                            break
                    h.ensure("operand-region-unchanged", bad is None, detail=f"{where}: operand {nm} changed at {bad}")
                    a1 = IntegrateShape.area(S0)
                    same = (a1 == f0) if typ != "float" else abs(float(a1) - float(f0)) <= 1e-9 * (1 + abs(float(f0)))
                    h.ensure("operand-area-unchanged", same, detail=f"{where}: operand {nm} area {f0} -> {a1}")
                    h.ensure("operand-still-well-formed", not well_formed(S0), detail=f"{where}: {well_formed(S0)[:2]}")
                    close = lambda u, v: abs(u - v) <= 1e-9 * (1 + abs(v))
                    h.ensure("live-operand-answers-like-deep-copy", close(float(S0), float(_copy.deepcopy(S0))) and all(close(float(j), float(_copy.deepcopy(j))) for j in S0.jordans), detail=f"{where}: operand {nm}")
                if isinstance(R, DefinedShape):
                    shared = coords_of(R) & coords_of(SA, SB)
                    h.ensure("result-shares-no-point-object-with-operands", not shared, detail=f"{where}: {len(shared)} shared Point2D objects")


def _mk(name, prop, props, typ, ops, checks, tier="quick"):
    @bounded(name, prop, funcs=["shape.FollowPath.*", "shape.DivideConnecteds", "shape.ShapeFromJordans", "shape.DefinedShape.__or__", "shape.DefinedShape.__and__"],
             props=props, bound=BOUND, tier=tier, timeout=900)
    def _(h):
        sweep(h, typ, ops, checks, h.tier)


for _typ in ("frac", "int", "float"):
    for _op in ("or", "and", "sub", "xor"):
        _mk(f"C01.rc-grid[{_op},{_typ}]", "C01", ["C01", "C06"] + (["C13"] if _typ != "float" else []), _typ, [_op], {"member", "structure", "wf"})
    _mk(f"C02.rc-grid[{_typ}]", "C02", ["C02"], _typ, ["or", "sub"], {"lib-in"})
    _mk(f"C05.rc-grid[{_typ}]", "C05", ["C05", "C04"] + (["C13"] if _typ != "float" else []), _typ, ["or", "and", "sub", "xor"], {"moments"})
    _mk(f"C07.rc-grid[{_typ}]", "C07", ["C07", "C19"], _typ, ["or", "and", "sub"], {"eq"})
    _mk(f"C08.rc-grid[{_typ}]", "C08", ["C08", "C10"], _typ, ["or", "and", "sub", "xor"], {"operands"})
    _mk(f"C10.rc-grid-reuse[{_typ}]", "C10", ["C10", "C01"], _typ, ["or", "and"], {"reuse"})


@bounded("C03.rc-grid", "C03", funcs=["shape.DefinedShape.contains_shape", "shape.SimpleShape._contains_shape", "shape.SimpleShape.__contains_simple", "shape.SimpleShape._contains_jordan"],
         bound=BOUND + "; subset truth = cell-set inclusion", timeout=900)
def _c03(h):
    pairs = zoo.grid_pairs(h.tier, _seed())
    extra = []
    for na, nb, sh in (("big3", "unit", (1, 1)), ("big4", "square2", (1, 1)), ("ring", "unit", (1, 1)), ("ring+island", "unit", (2, 2)), ("big4", "ring", (0, 0)), ("big3", "two", (0, 0))):
        a, b = zoo.region(na, 0), zoo.region(nb, 1, sh)
        extra += [(f"{na}>{nb}", a, b), (f"~{nb}>~{na}", ~b, ~a), (f"~{na}?{nb}", ~a, b), (f"{na}?~{nb}", a, ~b), (f"~{na}?~{nb}", ~a, ~b)]
    for typ in ("frac", "float"):
        for label, A, B in pairs + extra:
            if not (A.fits() and B.fits()):
                continue
            for X, Y, rx, ry in ((A, B, "A", "B"), (B, A, "B", "A")):
                SX, SY = to_shape(X, typ), to_shape(Y, typ)
                truth = Y.issubset(X)
                where = f"{label}: {ry} in {rx} type={typ}"
                try:
                    with watchdog(20):
                        got = SY in SX
                except Exception as e:  # noqa: BLE001
                    h.ensure("containment-does-not-raise", False, detail=f"{where}: {type(e).__name__}: {e}")
                    continue
                h.case((truth, truth_structure(X)[0], truth_structure(Y)[0], X.unbounded, Y.unbounded), True)
                h.ensure("in-is-subset", got is truth, detail=f"{where}: library {got}, truth {truth}")
                if isinstance(SX, DefinedShape) and isinstance(SY, DefinedShape):
                    h.ensure("operands-unchanged-by-query", not well_formed(SX) and not well_formed(SY) and IntegrateShape.area(SX) == X.area() * SCALE[typ] ** 2 if typ != "float" else True, detail=where)
                    if truth:
                        try:
                            u, i = SX | SY, SX & SY
                            h.ensure("subset-implies-union-and-intersection-laws", (u == SX) is True and (i == SY) is True, detail=f"{where}: A|B==A {u == SX}, A&B==B {i == SY}")
                        except Exception as e:  # noqa: BLE001
                            h.ensure("subset-laws-do-not-raise", False, detail=f"{where}: {type(e).__name__}: {e}")
            # curve-in-shape on curves that have been split at their crossings with the shape's boundary
            SX, SY = to_shape(A, typ), to_shape(B, typ)
            if isinstance(SX, DefinedShape) and isinstance(SY, DefinedShape):
                try:
                    SX & SY  # splits both operands' boundaries at the crossings
                    for jd in SY.jordans:
                        # (float vertices are snapped to the lattice they were generated on; crossings of lattice lines
                        #  have denominators dividing 3)
                        snap = lambda v_: (exact(v_) / SCALE[typ]).limit_denominator(1000)
                        lp = [(snap(sg.ctrlpoints[0][0]), snap(sg.ctrlpoints[0][1])) for sg in jd.segments]
                        truth_j = _loop_in_closed_region(lp, A)
                        got_j = jd in SX
                        h.ensure("curve-in-shape-means-every-point-of-the-curve", got_j is truth_j, detail=f"{label} type={typ}: boundary curve of B (split at its crossings) in A: library {got_j}, truth {truth_j}")
                except Exception as e:  # noqa: BLE001
                    h.ensure("curve-containment-does-not-raise", False, detail=f"{label}: {type(e).__name__}: {e}")
            SA = to_shape(A, typ)
            h.ensure("reflexive", (SA in SA) is True, detail=f"{label}: A in A")
    h.sample(dict(case="ring > unit@(1,1)", truth=zoo.region("unit", 1, (1, 1)).issubset(zoo.region("ring", 0))))


@bounded("C06.rc-singleton-laws", "C06", funcs=["shape.DefinedShape.__or__", "shape.DefinedShape.__and__", "shape.BaseShape.__sub__", "shape.BaseShape.__xor__"],
         bound="every shape of the grid zoo (incl. complements, holes, several components) x numeric types: S|~S, S&~S, S-S, S^S, S^~S", timeout=600)
def _singleton_laws(h):
    seen = set()
    for label, A, B in zoo.grid_pairs(h.tier, _seed()):
        for reg in (A, B):
            if reg in seen or not reg.fits():
                continue
            seen.add(reg)
            for typ in ("frac", "float"):
                S = to_shape(reg, typ)
                if not isinstance(S, DefinedShape):
                    continue
                h.case((truth_structure(reg), typ), True)
                for nm, fn, want in (("S|~S", lambda s: s | ~s, WholeShape()), ("S&~S", lambda s: s & ~s, EmptyShape()), ("S-S", lambda s: s - s, EmptyShape()),
                                     ("S^S", lambda s: s ^ s, EmptyShape()), ("S^~S", lambda s: s ^ ~s, WholeShape())):
                    try:
                        with watchdog(20):
                            r = fn(S)
                    except Exception as e:  # noqa: BLE001
                        h.ensure("singleton-law-does-not-raise", False, detail=f"{label} {nm} type={typ}: {type(e).__name__}: {e}")
                        continue
                    h.ensure("singleton-law", r is want, detail=f"{label} ({truth_structure(reg)}) {nm} type={typ}: got {type(r).__name__}")
                inv = ~S
                if reg.has_pinch():
                    continue
                ts = truth_structure(~reg)
                h.ensure("complement-kind-table", structure(inv) == ts, detail=f"{label}: ~{structure(S)} = {structure(inv)}, truth {ts}")


@bounded("C01.rc-nested", "C01", funcs=["shape.DefinedShape.__or__", "shape.DefinedShape.__and__"], props=["C01", "C05", "C06"],
         bound="three operands on three mutually offset lattices, all 16 expressions (A op1 B) op2 C and A op1 (B op2 C) over | & - ^", timeout=900)
def _nested(h):
    for label, A, B, C in zoo.grid_triples(h.tier, _seed()):
        for typ in ("frac",) if h.tier == "quick" else ("frac", "float"):
            for o1 in OPS:
                for o2 in OPS:
                    for form in ("left", "right"):
                        SA, SB, SC = to_shape(A, typ), to_shape(B, typ), to_shape(C, typ)
                        if form == "left":
                            T = OPS[o2][1](OPS[o1][1](A, B), C)
                            fn = lambda: OPS[o2][0](OPS[o1][0](SA, SB), SC)
                        else:
                            T = OPS[o1][1](A, OPS[o2][1](B, C))
                            fn = lambda: OPS[o1][0](SA, OPS[o2][0](SB, SC))
                        where = f"{label} {form} ({o1},{o2}) type={typ}"
                        try:
                            with watchdog(30):
                                R = fn()
                        except Exception as e:  # noqa: BLE001
                            h.ensure("nested-expression-returns", False, detail=f"{where}: {type(e).__name__}: {e}")
                            continue
                        h.case((o1, o2, form, truth_structure(T)[0]), True)
                        dR = desc_of(R)
                        bad = None
                        for p in GridRegion(A.cells | B.cells | C.cells).cell_centres():
                            t, g = T.contains(p), dR.contains(p)
                            if t is not None and g is not None and g != t:
                                bad = (p, t, g)
                                break
                        h.ensure("nested-result-region-is-set-theoretic-result", bad is None, detail=f"{where}: {bad}")
                        if typ == "frac" and isinstance(R, DefinedShape):
                            h.ensure("nested-result-area-exact", IntegrateShape.area(R) == T.area(), detail=f"{where}: {IntegrateShape.area(R)} vs {T.area()}")
                        if not T.has_pinch() and not (~T).has_pinch():
                            h.ensure("nested-result-structure", structure(R) == truth_structure(T), detail=f"{where}: {structure(R)} vs {truth_structure(T)}")
