"""Layer L3, part e: regrouping (DivideConnecteds / ShapeFromJordans), curve equality structure, split additivity."""
from __future__ import annotations

from fractions import Fraction

import z3

import shapepy.shape as S
from shapepy.curve import IntegratePlanar, PlanarCurve
from shapepy.jordancurve import JordanCurve
from shapepy.polygon import Point2D
from shapepy.shape import (ConnectedShape, DefinedShape, DisjointShape, EmptyShape, SimpleShape, WholeShape)

from .. import spec
from ..harness import AND, EQ, IFF, IMPLIES, NOT, OR, CalleePre, proof
from ..symx import Engine, Sym, SymBool
from .C15 import decasteljau_stub
from .common import mk_segment, xy


def _mk_regroup(n):
    @proof(f"C06.regroup[n={n}]", "C06", funcs=["shape.DivideConnecteds", "shape.ShapeFromJordans"], abstract=True, props=["C06", "C05", "C01"])
    def _(h):
        """ShapeFromJordans on n curves with symbolic areas and a symbolic mutual-containment relation (stubs of
        float() and `curve in simple`): every curve ends up in exactly one component (none lost, none duplicated),
        one curve => SimpleShape, one group => that group, several => DisjointShape; groups with >= 2 curves are
        ConnectedShapes; each group is led by its curve of largest |area| and its members are mutually nested with
        every earlier member."""
        if not h.sym:
            return
        eng = Engine.cur
        jords = [object.__new__(JordanCurve) for _ in range(n)]
        for i, j in enumerate(jords):
            j.tag = i
        areas = [eng.fresh_real(f"area{i}", "F") for i in range(n)]
        for a in areas:
            eng.assume(a.t != 0)
        for i in range(n):
            for k in range(i + 1, n):
                eng.assume(z3.If(areas[i].t > 0, areas[i].t, -areas[i].t) != z3.If(areas[k].t > 0, areas[k].t, -areas[k].t))
        inrel = {(i, k): eng.fresh_bool(f"in{i}{k}") for i in range(n) for k in range(n) if i != k}
        made = []

        class Simple(SimpleShape):
            def __new__(cls, jordan):
                return object.__new__(cls)

            def __init__(self, jordan):
                self.tag = jordan.tag
                self._j = (jordan,)
                made.append(self)

            @property
            def jordans(self):
                return self._j

            def __float__(self):
                return areas[self.tag]

        def stub_contains(shape, what):
            if not isinstance(what, JordanCurve) or not hasattr(shape, "tag") or shape.tag == what.tag:
                raise CalleePre("`jordan in simple` between two different curves expected")
            return bool(inrel[(what.tag, shape.tag)])

        class Conn(ConnectedShape):
            def __init__(self, subs):
                self.members = list(subs)

        class Disj(DisjointShape):
            def __new__(cls, subs):
                o = object.__new__(cls)
                o.members = list(subs)
                return o

            def __init__(self, subs):
                pass

        with h.stubs({(S, "SimpleShape"): Simple, (S, "ConnectedShape"): Conn, (S, "DisjointShape"): Disj, (DefinedShape, "__contains__"): stub_contains,
                      (S, "abs"): abs}):
            res = S.ShapeFromJordans(tuple(jords))
        groups = []
        if isinstance(res, Disj):
            comps = res.members
        else:
            comps = [res]
        for c in comps:
            groups.append([m.tag for m in c.members] if isinstance(c, Conn) else [c.tag])
        flat = [t for g in groups for t in g]
        h.ensure("every-curve-in-exactly-one-component", sorted(flat) == list(range(n)))
        h.ensure("kind-follows-the-grouping", (n == 1 and isinstance(res, Simple)) or (len(groups) == 1 and (isinstance(res, Conn) if len(groups[0]) > 1 else isinstance(res, Simple))) or (len(groups) > 1 and isinstance(res, Disj)))
        h.ensure("multi-curve-groups-are-connected-shapes", all(isinstance(c, Conn) == (len(g) > 1) for c, g in zip(comps, groups)))
        mag = lambda i: z3.If(areas[i].t > 0, areas[i].t, -areas[i].t)
        cs = []
        for g in groups:
            for pos, t in enumerate(g):
                for prev in g[:pos]:
                    cs.append(z3.And(inrel[(t, prev)].t, inrel[(prev, t)].t))  # mutually nested with every earlier member
                    cs.append(mag(prev) > mag(t) if prev == g[0] else z3.BoolVal(True))
        h.ensure("group-members-mutually-nested-and-led-by-the-largest", SymBool(z3.And(*cs)) if cs else True)


for _n in (1, 2, 3):
    _mk_regroup(_n)


def _mk_curve_eq(na, nb):
    @proof(f"C07.curve-eq-structure[{na},{nb}]", "C07", funcs=["jordancurve.JordanCurve.__eq__", "curve.PlanarCurve.__eq__"], props=["C07"], timeout=900,
           tier="quick" if na * nb <= 12 else "thorough")
    def _(h):
        """the rotation matching of JordanCurve.__eq__ on two polygons with symbolic vertices (`point in curve` and
        `clean` replaced by their contracts: both curves are already clean, all sample points lie on the other curve):
        never raises, returns a bool, and equals `same number of segments and some rotation of the segment list
        matches segment by segment` -- the index arithmetic for every rotation."""
        va = [h.point(f"a{i}", "F") for i in range(na)]
        vb = [h.point(f"b{i}", "F") for i in range(nb)]
        tol = Fraction(1e-9)
        # non-degenerate polygons: consecutive and second-next vertices clearly apart (distinct segments)
        for vs in (va, vb):
            m = len(vs)
            for i in range(m):
                for k in range(i + 1, m):
                    h.assume(OR(abs(vs[i][0] - vs[k][0]) > 4 * tol, abs(vs[i][1] - vs[k][1]) > 4 * tol))
        A, B = JordanCurve.from_vertices(va), JordanCurve.from_vertices(vb)
        with h.stubs({(JordanCurve, "__contains__"): lambda self, p: True, (JordanCurve, "clean"): lambda self: self}, also_concrete=True):
            r, e = h.call(lambda: A == B)
        h.ensure("never-raises", e is None, detail=f"{type(e).__name__ if e else None}: {e}")
        if e is not None:
            return
        h.ensure("returns-bool", r is True or r is False)
        peq = lambda p, q: AND(abs(p[0] - q[0]) <= tol, abs(p[1] - q[1]) <= tol)
        if na != nb:
            h.ensure("different-segment-counts-are-unequal", r is False)
            return
        rots = []
        for rot in range(na):
            rots.append(AND(*[AND(peq(va[(i + rot) % na], vb[i]), peq(va[(i + rot + 1) % na], vb[(i + 1) % nb])) for i in range(nb)]))
        h.ensure("equal-iff-some-rotation-matches", IFF(r is True, OR(*rots)))


for _na, _nb in ((3, 3), (3, 4), (4, 3), (4, 4)):
    _mk_curve_eq(_na, _nb)


def _mk_additive(d, a, b):
    @proof(f"C05.split-additive[d={d},a={a},b={b}]", "C05", funcs=["curve.PlanarCurve.split", "curve.IntegratePlanar.vertical"], props=["C05", "C15", "C10"])
    def _(h):
        """splitting a segment at a symbolic parameter does not change its boundary integral: sum over the pieces =
        value on the segment (within the exactness domain), so in-place splitting by operators changes no moment."""
        seg, ctrl = mk_segment(h, "p", d)
        t = h.real("t")
        h.assume(AND(t > 0, t < 1))
        whole = IntegratePlanar.vertical(seg, a, b)
        with h.stubs(decasteljau_stub(h) if h.sym else {}):
            pieces = seg.split((t,))
        tot = 0
        for pc in pieces:
            tot = tot + IntegratePlanar.vertical(pc, a, b)
        h.ensure("sum-over-pieces-equals-whole", EQ(tot, whole))


for _d, _a, _b in ((1, 1, 0), (1, 2, 1), (2, 1, 0), (2, 2, 0), (3, 1, 0)):
    _mk_additive(_d, _a, _b)


def _mk_shape_transform(kind):
    @proof(f"C09.shape[{kind}]", "C09", funcs=["shape.DefinedShape.move", "shape.DefinedShape.scale", "shape.DefinedShape.rotate"], props=["C09", "C11"])
    def _(h):
        """shape-level transformations reach every boundary curve exactly once and return the same object (Simple,
        Connected with a hole, Disjoint with a hole component + a simple one; all coordinates and parameters symbolic)."""
        import shapepy.polygon as P
        from .common import shape_view, shape_view_eq
        from shapepy.jordancurve import JordanCurve as JC

        tris = [[h.point(f"t{k}_{i}", "F") for i in range(3)] for k in range(3)]
        sims = [SimpleShape(JC.from_vertices(t)) for t in tris]
        if kind == "Simple":
            shape = sims[0]
            used = tris[:1]
        elif kind == "Connected":
            shape = object.__new__(ConnectedShape)
            shape._ConnectedShape__subshapes = (sims[0], sims[1])
            used = tris[:2]
        else:
            conn = object.__new__(ConnectedShape)
            conn._ConnectedShape__subshapes = (sims[0], sims[1])
            shape = object.__new__(DisjointShape)
            shape._DisjointShape__subshapes = (conn, sims[2])
            used = tris
        dx, dy, sx, sy = h.reals("dx dy sx sy", "F")
        ang = h.real("ang", "F")
        cur = [list(t) for t in used]

        def want():
            return tuple(tuple((t[i], t[(i + 1) % 3]) for i in range(3)) for t in cur)

        r = shape.move(dx, dy)
        cur = [[spec.affine("move", (dx, dy), p) for p in t] for t in cur]
        h.ensure("move-reaches-every-curve-once-and-returns-self", AND(r is shape, shape_view_eq(shape_view(shape), want())))
        r = shape.scale(sx, sy)
        cur = [[spec.affine("scale", (sx, sy), p) for p in t] for t in cur]
        h.ensure("scale-reaches-every-curve-once-and-returns-self", AND(r is shape, shape_view_eq(shape_view(shape), want())))
        r = shape.rotate(ang)
        if h.sym:
            c, s_ = P.np.cos(ang), P.np.sin(ang)
        else:
            import numpy as np

            c, s_ = np.cos(ang), np.sin(ang)
        cur = [[spec.affine("rotate", (c, s_), p) for p in t] for t in cur]
        h.ensure("rotate-reaches-every-curve-once-and-returns-self", AND(r is shape, shape_view_eq(shape_view(shape), want())))
        before = shape_view(shape)
        for op, args in (("move", ("a", 1)), ("scale", (2, "x")), ("rotate", ("x",))):
            _, e = h.call(getattr(shape, op), *args)
            h.ensure("rejected-arguments-leave-shape-unchanged", AND(e is not None, shape_view_eq(shape_view(shape), before)))


for _k in ("Simple", "Connected", "Disjoint"):
    _mk_shape_transform(_k)


def _mk_copy_shape(kind):
    @proof(f"C08.copy-shape[{kind}]", "C08", funcs=["shape.DefinedShape.__copy__", "shape.DefinedShape.__deepcopy__", "shape.SimpleShape.__init__", "shape.SimpleShape.__invert__",
                                                   "shape.DefinedShape.__invert__", "shape.ConnectedShape.__invert__"], abstract=True, props=["C08", "C05", "C06"])
    def _(h):
        """copy / deepcopy / ~ of a shape on symbolic triangles (nesting relation and areas through stubs): the result
        holds the same (resp. reversed) boundary curves, shares no mutable object with the operand, and the operand is
        framed; mutating the copy leaves the operand."""
        if not h.sym:
            return
        import copy as _c
        from .common import disjoint_heaps, frame_unchanged, snapshot, view, view_eq
        from shapepy.jordancurve import JordanCurve as JC

        eng = Engine.cur
        tris = [[h.point(f"t{k}_{i}", "F") for i in range(3)] for k in range(3)]
        sims = [SimpleShape(JC.from_vertices(t)) for t in tris]
        if kind == "Simple":
            shape, used = sims[0], tris[:1]
        elif kind == "Connected":
            shape = object.__new__(ConnectedShape)
            shape._ConnectedShape__subshapes = (sims[0], sims[1])
            used = tris[:2]
        else:
            shape = object.__new__(DisjointShape)
            shape._DisjointShape__subshapes = (sims[0], sims[2])
            used = [tris[0], tris[2]]
        nested = kind == "Connected"
        areas = {}

        def fl(obj):
            if id(obj) not in areas:
                v = eng.fresh_real("area", "F")
                eng.assume(v.t != 0)
                areas[id(obj)] = v
            return areas[id(obj)]

        keys = lambda sh: sorted(tuple((p[0].t.sexpr(), p[1].t.sexpr()) for seg in view(j) for p in seg) for j in sh.jordans)
        want = keys(shape)
        want_rev = sorted(tuple((p[0].t.sexpr(), p[1].t.sexpr()) for seg in [tuple(s[::-1]) for s in view(j)[::-1]] for p in seg) for j in shape.jordans)
        snap = snapshot(shape)
        with h.stubs({(DefinedShape, "__float__"): fl, (ConnectedShape, "__float__"): fl, (DisjointShape, "__float__"): fl, (JC, "__float__"): fl,
                      (DefinedShape, "__contains__"): lambda s_, what: nested}):
            for name, fn in (("copy", _c.copy), ("deepcopy", _c.deepcopy)):
                r = fn(shape)
                h.ensure(f"{name}-holds-the-same-boundary-curves", keys(r) == want)
                h.ensure(f"{name}-shares-no-mutable-object", disjoint_heaps([r], [shape]))
                h.ensure(f"{name}-frames-the-operand", frame_unchanged(snap))
                dx, dy = h.reals("dx dy", "F")
                r.move(dx, dy)
                h.ensure(f"{name}-moving-the-copy-leaves-the-operand", keys(shape) == want)
            inv = ~shape
            h.ensure("complement-holds-every-curve-reversed", keys(inv) == want_rev)
            h.ensure("complement-shares-no-mutable-object", disjoint_heaps([inv], [shape]))
            h.ensure("complement-frames-the-operand", AND(frame_unchanged(snap), keys(shape) == want))


for _k in ("Simple", "Connected", "Disjoint"):
    _mk_copy_shape(_k)


def _mk_complement_measure(kind):
    @proof(f"C05.complement[{kind}]", "C05", funcs=["shape.SimpleShape.__invert__", "shape.ConnectedShape.__invert__", "shape.DefinedShape.__invert__", "shape.IntegrateShape.polynomial"],
           props=["C05", "C04", "C01"], timeout=600)
    def _(h):
        """m(~A) = -m(A) for all moments up to order 2, through the real complement and the real integrators, on
        symbolic polygons (Simple: triangle and quadrilateral; Connected: triangle with a triangular hole -- the
        nesting test of the regrouping is the only stub)."""
        from shapepy.jordancurve import JordanCurve as JC
        from shapepy.shape import IntegrateShape

        def poly(pfx, n):
            return [h.point(f"{pfx}{i}") for i in range(n)]

        if kind == "Simple":
            shapes = [SimpleShape(JC.from_vertices(poly("a", 3))), SimpleShape(JC.from_vertices(poly("b", 4)))]
        else:
            outer, hole = SimpleShape(JC.from_vertices(poly("a", 3))), SimpleShape(JC.from_vertices(poly("b", 3)))
            c = object.__new__(ConnectedShape)
            c._ConnectedShape__subshapes = (outer, hole)
            shapes = [c]
        for shape in shapes:
            before = [IntegrateShape.polynomial(shape, a, b) for a, b in ((0, 0), (1, 0), (0, 1), (2, 0), (1, 1), (0, 2))]
            lens = {}

            def jfloat(jd):
                if id(jd) not in lens:
                    lens[id(jd)] = Engine.cur.fresh_real("len", "F")
                return lens[id(jd)]

            with h.stubs({(DefinedShape, "__contains__"): lambda s_, w_: False, (JC, "__float__"): jfloat} if h.sym else {}):
                inv = ~shape
            after = [IntegrateShape.polynomial(inv, a, b) for a, b in ((0, 0), (1, 0), (0, 1), (2, 0), (1, 1), (0, 2))]
            h.ensure("every-moment-changes-sign", AND(*[EQ(x, -y) for x, y in zip(before, after)]))
            h.ensure("operand-moments-unchanged", AND(*[EQ(IntegrateShape.polynomial(shape, a, b), m) for (a, b), m in zip(((0, 0), (1, 0), (0, 2)), (before[0], before[1], before[5]))]))
            back = ~inv if kind == "Simple" else None
            if back is not None:
                h.ensure("double-complement-restores-moments", AND(*[EQ(IntegrateShape.polynomial(back, a, b), m) for (a, b), m in zip(((0, 0), (1, 1)), (before[0], before[4]))]))


_mk_complement_measure("Simple")
_mk_complement_measure("Connected")
