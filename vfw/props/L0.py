"""Layer L0 contracts: polygon.py (Point2D, Box).  Shared by C07, C08, C09, C13, C17, C02."""
from __future__ import annotations

import copy as _copy
from fractions import Fraction

import shapepy.polygon as P
from shapepy.polygon import Box, Point2D

from .. import spec
from ..harness import AND, EQ, IFF, IMPLIES, NOT, OR, bounded, is_wellformed_fraction, proof
from ..symx import Engine, Sym
from .common import xy

TOL9 = Fraction(1e-9)
TOL6 = Fraction(1e-6)


def _mk_init(mode):
    @proof(f"L0.point-init[{mode}]", "C13", funcs=["polygon.Point2D.__new__", "polygon.Point2D.__init__", "polygon.Point2D.__getitem__", "polygon.Point2D.__iter__"],
           props=["C13", "C08", "C17"])
    def _(h):
        x, y = h.real("x", mode), h.real("y", mode)
        p = Point2D(x, y)
        h.ensure("stores-coordinates-unchanged", AND(EQ(p[0], x), EQ(p[1], y)))
        h.ensure("iter-yields-xy", EQ(tuple(p), (x, y)))
        if mode == "Q":
            h.ensure("stays-exact", AND(is_wellformed_fraction(p[0]), is_wellformed_fraction(p[1])))
        q = Point2D((x, y))
        h.ensure("pair-form", AND(EQ(q[0], x), EQ(q[1], y), q is not p))
        r = Point2D(p)
        h.ensure("point-argument-returns-same-object", r is p)
        h.ensure("reinit-keeps-value", AND(EQ(p[0], x), EQ(p[1], y)))
        _, e = h.call(Point2D, "1", y)
        h.ensure("str-rejected", isinstance(e, TypeError))
        _, e = h.call(Point2D, (x, y, x))
        h.ensure("triple-rejected", isinstance(e, ValueError))
        _, e = h.call(lambda: p[2])
        h.ensure("index-2-rejected", isinstance(e, AssertionError))


def _mk_arith(mode):
    @proof(f"L0.point-arith[{mode}]", "C13", funcs=["polygon.Point2D.__add__", "polygon.Point2D.__sub__", "polygon.Point2D.__mul__", "polygon.Point2D.__rmul__",
                                                   "polygon.Point2D.__truediv__", "polygon.Point2D.__neg__", "polygon.Point2D.__copy__", "polygon.Point2D.__deepcopy__",
                                                   "polygon.Point2D.inner", "polygon.Point2D.cross", "polygon.Point2D.norm2", "polygon.Point2D.__or__", "polygon.Point2D.__xor__"],
           props=["C13", "C08"])
    def _(h):
        ax, ay, bx, by, k = h.reals("ax ay bx by k", mode)
        a, b = Point2D(ax, ay), Point2D(bx, by)

        def unchanged():
            return AND(EQ(a[0], ax), EQ(a[1], ay), EQ(b[0], bx), EQ(b[1], by))

        def exact(p):
            return AND(is_wellformed_fraction(p[0]), is_wellformed_fraction(p[1])) if mode == "Q" else True

        for name, fn, want in (
            ("add", lambda: a + b, (ax + bx, ay + by)),
            ("sub", lambda: a - b, (ax - bx, ay - by)),
            ("mul", lambda: a * k, (ax * k, ay * k)),
            ("rmul", lambda: k * a, (ax * k, ay * k)),
            ("neg", lambda: -a, (-ax, -ay)),
            ("add-pair", lambda: a + (bx, by), (ax + bx, ay + by)),
        ):
            r = fn()
            h.ensure(f"{name}-value", AND(EQ(r[0], want[0]), EQ(r[1], want[1])))
            h.ensure(f"{name}-fresh-object", r is not a and r is not b and isinstance(r, Point2D))
            h.ensure(f"{name}-operands-unchanged", unchanged())
            h.ensure(f"{name}-exact-type", exact(r))
        r, e = h.call(lambda: a / k)
        if e is None:
            h.ensure("div-value", AND(EQ(r[0] * k, ax), EQ(r[1] * k, ay), r is not a))
            h.ensure("div-exact-type", exact(r))
        else:
            h.ensure("div-raises-only-for-zero", AND(isinstance(e, ZeroDivisionError), EQ(k, 0)))
        h.ensure("div-operands-unchanged", unchanged())
        h.ensure("inner", EQ(a.inner(b), ax * bx + ay * by))
        h.ensure("cross", EQ(a.cross(b), ax * by - ay * bx))
        h.ensure("or-is-inner", EQ(a | b, ax * bx + ay * by))
        h.ensure("xor-is-cross", EQ(a ^ b, ax * by - ay * bx))
        h.ensure("norm2", EQ(a.norm2(), ax * ax + ay * ay))
        c = _copy.copy(a)
        d = _copy.deepcopy(a)
        h.ensure("copy-fresh-equal", AND(c is not a, d is not a, c is not d, EQ(c[0], ax), EQ(c[1], ay), EQ(d[0], ax), EQ(d[1], ay)))
        c.move(b)
        h.ensure("mutating-copy-leaves-original", unchanged())


def _mk_inplace(mode):
    @proof(f"L0.point-inplace[{mode}]", "C09", funcs=["polygon.Point2D.move", "polygon.Point2D.scale", "polygon.Point2D.rotate", "polygon.Point2D.__iadd__",
                                                     "polygon.Point2D.__isub__", "polygon.Point2D.__imul__", "polygon.Point2D.__itruediv__"],
           props=["C09", "C13", "C12"])
    def _(h):
        ax, ay, bx, by, sx, sy = h.reals("ax ay bx by sx sy", mode)
        ang = h.real("ang", "F")
        b = Point2D(bx, by)
        a = Point2D(ax, ay)
        r = a.move(b)
        h.ensure("move-in-place", AND(r is a, EQ(a[0], ax + bx), EQ(a[1], ay + by), EQ(b[0], bx), EQ(b[1], by)))
        a = Point2D(ax, ay)
        r = a.scale(sx, sy)
        h.ensure("scale-in-place", AND(r is a, EQ(a[0], ax * sx), EQ(a[1], ay * sy)))
        if mode == "Q":
            h.ensure("move-scale-exact-type", AND(is_wellformed_fraction(a[0]), is_wellformed_fraction(a[1])))
        a = Point2D(ax, ay)
        r = a.rotate(ang)
        if h.sym:
            c, s = P.np.cos(ang), P.np.sin(ang)
        else:
            import numpy as np

            c, s = np.cos(ang), np.sin(ang)
        h.ensure("rotate-in-place", AND(r is a, EQ(a[0], c * ax - s * ay), EQ(a[1], s * ax + c * ay)))
        a = Point2D(ax, ay)
        a0 = a
        a += b
        h.ensure("iadd", AND(a is a0, EQ(a[0], ax + bx), EQ(a[1], ay + by), EQ(b[0], bx), EQ(b[1], by)))
        a -= b
        h.ensure("isub-restores", AND(a is a0, EQ(a[0], ax), EQ(a[1], ay), EQ(b[0], bx), EQ(b[1], by)))
        # validate-before-mutate (C11): invalid arguments leave the point unchanged
        a = Point2D(ax, ay)
        _, e = h.call(a.scale, sx, "k")
        h.ensure("scale-bad-arg-raises", e is not None)
        h.ensure("scale-bad-arg-leaves-point", AND(EQ(a[0], ax), EQ(a[1], ay)))
        _, e = h.call(a.rotate, "k")
        h.ensure("rotate-bad-arg-leaves-point", AND(e is not None, EQ(a[0], ax), EQ(a[1], ay)))


@proof("L0.point-abs", "C14", funcs=["polygon.Point2D.__abs__"], props=["C14", "C18", "C17"])
def _point_abs(h):
    """abs(p) for float-mode coordinates: non-negative and squares to x^2 + y^2 (math.sqrt as the real square root, A4)."""
    x, y = h.reals("x y", "F")
    r = abs(Point2D(x, y))
    if h.sym:
        h.ensure("euclidean-norm", AND(r >= 0, EQ(r * r, x * x + y * y)))
    else:
        h.ensure("euclidean-norm", r >= 0 and abs(r * r - (x * x + y * y)) <= 1e-9 * (1 + x * x + y * y))


@proof("L0.point-eq", "C07", funcs=["polygon.Point2D.__eq__"], props=["C07", "C12"])
def _point_eq(h):
    ax, ay, bx, by = h.reals("ax ay bx by", "F")
    a, b = Point2D(ax, ay), Point2D(bx, by)
    r = a == b
    want = AND(abs(ax - bx) <= TOL9, abs(ay - by) <= TOL9)
    h.ensure("eq-iff-both-gaps-within-1e-9", IFF(r is True, want))
    h.ensure("returns-bool", r is True or r is False)
    h.ensure("reflexive", (a == a) is True)
    h.ensure("symmetric", (b == a) is r)
    h.ensure("pair-operand", (a == (bx, by)) is r)
    h.ensure("ne-is-negation", (a != b) is (not r))
    h.ensure("operands-unchanged", AND(EQ(a[0], ax), EQ(a[1], ay), EQ(b[0], bx), EQ(b[1], by)))


@proof("L0.point-eq-not-transitive", "C07", funcs=["polygon.Point2D.__eq__"], expect="refuted", tier="thorough",
       note="tolerance equality cannot be transitive: pins the 1e-9 call site (must be refuted)")
def _point_eq_trans(h):
    ax, bx, cx = h.reals("ax bx cx", "F")
    a, b, c = Point2D(ax, 0), Point2D(bx, 0), Point2D(cx, 0)
    h.ensure("transitive", IMPLIES(AND(a == b, b == c), a == c))


@proof("L0.box", "C17", funcs=["polygon.Box.__contains__", "polygon.Box.__or__", "polygon.Box.__ror__", "polygon.Box.__and__", "polygon.Box.__float__", "polygon.Box.__bool__"],
       props=["C17", "C02", "C12"])
def _box(h):
    lx, ly, hx, hy, mx, my, nx, ny, px, py = h.reals("lx ly hx hy mx my nx ny px py", "F")
    h.assume(AND(lx <= hx, ly <= hy, mx <= nx, my <= ny))
    b1 = Box(Point2D(lx, ly), Point2D(hx, hy))
    b2 = Box(Point2D(mx, my), Point2D(nx, ny))
    r = Point2D(px, py) in b1
    inside = AND(px >= lx - TOL6, px <= hx + TOL6, py >= ly - TOL6, py <= hy + TOL6)
    h.ensure("contains-iff-in-inflated-rectangle", IFF(r is True, inside))
    h.ensure("contains-pair-argument", ((px, py) in b1) is r)
    u = b1 | b2
    ulo, uhi = xy(u.lowpt), xy(u.toppt)
    h.ensure("or-is-bounding-union", AND(ulo[0] <= lx, ulo[0] <= mx, ulo[1] <= ly, ulo[1] <= my, uhi[0] >= hx, uhi[0] >= nx, uhi[1] >= hy, uhi[1] >= ny,
                                         OR(EQ(ulo[0], lx), EQ(ulo[0], mx)), OR(EQ(ulo[1], ly), EQ(ulo[1], my)),
                                         OR(EQ(uhi[0], hx), EQ(uhi[0], nx)), OR(EQ(uhi[1], hy), EQ(uhi[1], ny))))
    h.ensure("or-fresh", u is not b1 and u is not b2 and u.lowpt is not b1.lowpt)
    h.ensure("ror-with-none-is-self", (None | b1) is b1)
    i = b1 & b2
    overlap = AND(lx <= nx, mx <= hx, ly <= ny, my <= hy)
    h.ensure("and-none-iff-disjoint", IFF(i is None, NOT(overlap)))
    if i is not None:
        ilo, ihi = xy(i.lowpt), xy(i.toppt)
        h.ensure("and-is-intersection", AND(ilo[0] >= lx, ilo[0] >= mx, ihi[0] <= hx, ihi[0] <= nx, ilo[1] >= ly, ilo[1] >= my, ihi[1] <= hy, ihi[1] <= ny,
                                            OR(EQ(ilo[0], lx), EQ(ilo[0], mx)), OR(EQ(ihi[0], hx), EQ(ihi[0], nx)),
                                            OR(EQ(ilo[1], ly), EQ(ilo[1], my)), OR(EQ(ihi[1], hy), EQ(ihi[1], ny))))
        h.ensure("box-is-truthy", bool(i) is True)
    fl = P.float(b1) if h.sym else float(b1)
    h.ensure("float-is-area", EQ(fl, (hx - lx) * (hy - ly)))
    h.ensure("operands-unchanged", AND(EQ(b1.lowpt[0], lx), EQ(b1.toppt[1], hy), EQ(b2.lowpt[0], mx), EQ(b2.toppt[1], ny)))


@bounded("L0.rc-limit-denominator", "C13", funcs=["polygon.Point2D.__init__"], bound="2000 seeded random fractions with denominators in [1, 10^12] + boundary denominators 10^9-1, 10^9, 10^9+1")
def _rc_limit(h):
    import random

    rnd = random.Random(h.seed + 13)
    cases = [Fraction(1, 10**9 - 1), Fraction(1, 10**9), Fraction(7, 10**9 + 1), Fraction(883567286527, 1800356236451)]
    for _ in range(2000):
        den = rnd.randint(1, 10 ** rnd.choice([3, 6, 9, 10, 12]))
        cases.append(Fraction(rnd.randint(-10**12, 10**12), den))
    for fr in cases:
        p = Point2D(fr, -fr)
        x = p[0]
        ok_type = isinstance(x, Fraction) and type(x.numerator) is int and type(x.denominator) is int
        h.ensure("well-formed-fraction", ok_type, detail=f"Point2D({fr!r}, ..)[0] = {x!r} ({type(getattr(x, 'numerator', None)).__name__})")
        if fr.denominator <= 10**9:
            h.ensure("stored-unchanged-when-denominator-at-most-1e9", x == fr, detail=f"{fr!r} -> {x!r}")
        else:
            h.ensure("closest-fraction-otherwise", abs(x - fr) <= Fraction(1, 10**9), detail=f"{fr!r} -> {x!r}")
        h.case(("den>1e9", fr.denominator > 10**9, fr.denominator == 1), True)
    h.sample(dict(input=str(cases[3]), stored=str(Point2D(cases[3], 0)[0])))
    for v in (3, Fraction(5, 7)):
        p = Point2D(v, 1.5)
        h.ensure("mixed-int-float-kept", p[0] == v and p[1] == 1.5)


for _m in ("Q", "F"):
    _mk_init(_m)
    _mk_arith(_m)
    _mk_inplace(_m)
