"""C04 -- area and polynomial moments equal the true integrals over the region."""
from __future__ import annotations

import math
from fractions import Fraction

import z3

import shapepy.curve as C
import shapepy.jordancurve as J
import shapepy.shape as S
from shapepy.curve import IntegratePlanar, PlanarCurve
from shapepy.jordancurve import IntegrateJordan, JordanCurve
from shapepy.shape import (ConnectedShape, DefinedShape, DisjointShape, EmptyShape, IntegrateShape, SimpleShape,
                           WholeShape)

from .. import spec
from ..ghost import SumFold
from ..harness import AND, EQ, IMPLIES, NOT, OR, bounded, is_wellformed_fraction, proof
from ..loopcut import AbsSeq, LoopCtl, StopPath, cut
from ..symx import Engine, Sym, lift
from .common import mk_jordan_ctrl, mk_segment, nonreducible, view, xy

VERT = ["curve.IntegratePlanar.vertical", "curve.Math.open_linspace", "curve.PlanarCurve.derivate", "curve.PlanarCurve.eval"]


def exact_domain(d, a, b):
    """open Newton-Cotes with n nodes integrates degree <= n-1 (n even) / n (n odd) exactly; the
    library takes n = 3 + a + b + d, the integrand x^a y^b y' has degree d(a+b) + d - 1."""
    n = 3 + a + b + d
    return d * (a + b) + d - 1 <= (n if n % 2 else n - 1)


def _mk_segment_ob(d, a, b, tier):
    @proof(f"C04.segment[d={d},a={a},b={b}]", "C04", funcs=VERT, tier=tier, props=["C04", "C13"])
    def _(h):
        h.trust("pynurbs.heavy.IntegratorArray.open_newton_cotes (weights are executed; their effect is what this obligation checks)")
        seg, ctrl = mk_segment(h, "p", d)
        val = IntegratePlanar.vertical(seg, a, b)
        h.ensure("equals-exact-integral", EQ(val, spec.vertical_integral(ctrl, a, b)))
        h.ensure("exact-type", is_wellformed_fraction(val))
        if a == 1 and b == 0:
            h.ensure("area-is-vertical-1-0", EQ(IntegratePlanar.area(seg), val))


def _mk_inexact(d, a, b):
    @proof(f"C04.node-rule-boundary[d={d},a={a},b={b}]", "C04", funcs=VERT, tier="thorough", expect="refuted",
           note="outside the exactness domain the quadrature is NOT exact: pins the node-count rule 3+a+b+d (must be refuted)")
    def _(h):
        seg, ctrl = mk_segment(h, "p", d)
        val = IntegratePlanar.vertical(seg, a, b)
        h.ensure("equals-exact-integral", EQ(val, spec.vertical_integral(ctrl, a, b)))


def _mk_reverse(d, a, b, tier):
    @proof(f"C04.reverse[d={d},a={a},b={b}]", "C04", funcs=VERT + ["curve.PlanarCurve.invert"], tier=tier, props=["C04", "C05"])
    def _(h):
        seg, ctrl = mk_segment(h, "p", d)
        val = IntegratePlanar.vertical(seg, a, b)
        r = seg.invert()
        h.ensure("invert-returns-self", r is seg)
        h.ensure("invert-reverses-control-points", AND(*[AND(EQ(p[0], c[0]), EQ(p[1], c[1])) for p, c in zip(seg.ctrlpoints, ctrl[::-1])]))
        val2 = IntegratePlanar.vertical(seg, a, b)
        h.ensure("reversal-negates-integral", EQ(val2, -val))


# ------------------------------------------------------------------ unbounded sums (LC)

class AbsSegment(PlanarCurve):
    def __init__(self, k):
        self.k = k


def _abs_jordan(name="segments"):
    class AbsJordan(JordanCurve):
        def __init__(self):
            pass

        segments = AbsSeq(name, AbsSegment)

    return AbsJordan()


def _mk_jordan_sum(fname, callee_owner, callee, args):
    @proof(f"C04.sum[IntegrateJordan.{fname}]", "C04", funcs=[f"jordancurve.IntegrateJordan.{fname}"], abstract=True,
           props=["C04", "C13"])
    def _(h):
        """loop cut: for every number of segments, the result is the sum of the per-segment callee values."""
        h.assumed_contract(f"IntegratePlanar.{callee} per segment (proved on the exactness domain: C04.segment[*])")
        fold = SumFold(fname)
        ctl = LoopCtl(h, {0: lambda env, k, seq: (fold.use(k, k + 1), EQ(env_num(env, _acc(fname)), fold.total(k)))[-1]},
                      fn_name=fname)
        jordan = _abs_jordan()
        seq = type(jordan).segments

        def stub(bezier, *a, **kw):
            if not isinstance(bezier, AbsSegment):
                raise AssertionError("callee precondition: a PlanarCurve element of jordan.segments")
            return fold.value(bezier.k)

        fn = getattr(IntegrateJordan, fname)
        with h.stubs({(callee_owner, callee): staticmethod(stub)}):
            cutfn, src = cut(fn, ctl)
            try:
                res = cutfn(jordan, *args)
            except StopPath:
                return
        fold.use(seq.n)
        h.ensure("result-is-sum-over-segments", EQ(res, fold.total(seq.n)))


def _acc(fname):
    return {"vertical": "total", "polynomial": "total", "lenght": "lenght", "area": "area"}[fname]


def env_num(env, name):
    v = env[name]
    return v


@proof("C04.sum[IntegrateShape.polynomial]", "C04", funcs=["shape.IntegrateShape.polynomial", "shape.IntegrateShape.area"],
       abstract=True, props=["C04", "C13"])
def _shape_sum(h):
    """loop cut over shape.jordans: polynomial(S,a,b) = (1/(a+1)) * sum_J vertical(J, a+1, b); area = polynomial(0,0)."""
    h.lemma("Green's theorem for piecewise polynomial Jordan boundaries: int_D x^a y^b dA = 1/(a+1) * closed-boundary integral of x^(a+1) y^b dy")
    for (a, b) in ((0, 0), (1, 0), (0, 1), (2, 0), (1, 1), (0, 2), (3, 1)):
        fold = SumFold("jord")
        seen = []

        class AbsJ(JordanCurve):
            def __init__(self, k):
                self.k = k

        class AbsShape(SimpleShape):
            def __init__(self):
                pass

            jordans = AbsSeq("jordans", AbsJ)

        def stub(jordan, expx, expy, nnodes=None):
            seen.append((expx, expy, nnodes))
            return fold.value(jordan.k)

        ctl = LoopCtl(h, {0: lambda env, k, seq: (fold.use(k, k + 1), EQ(env["total"], fold.total(k)))[-1]}, fn_name="polynomial")
        shape = AbsShape()
        seq = AbsShape.jordans
        with h.stubs({(IntegrateJordan, "vertical"): staticmethod(stub)}):
            cutfn, src = cut(IntegrateShape.polynomial, ctl)
            try:
                res = cutfn(shape, a, b)
            except StopPath:
                h.ensure("callee-exponents", all(s == (a + 1, b, None) for s in seen))
                continue
        fold.use(seq.n)
        h.ensure(f"result-is-green-sum[a={a},b={b}]", EQ(res, fold.total(seq.n) * Fraction(1, a + 1)))
    # area delegates
    calls = []

    def stub_poly(shape, expx, expy, nnodes=None):
        calls.append((expx, expy, nnodes))
        return Fraction(7, 3)

    with h.stubs({(IntegrateShape, "polynomial"): staticmethod(stub_poly)}):
        if h.sym:
            r = IntegrateShape.area(object.__new__(SimpleShape))
            h.ensure("area-is-polynomial-0-0", r == Fraction(7, 3) and calls == [(0, 0, None)])


@proof("C04.shape-float", "C04", funcs=["shape.DefinedShape.__float__", "shape.ConnectedShape.__float__", "shape.DisjointShape.__float__",
                                        "shape.EmptyShape.__float__", "shape.WholeShape.__float__"], abstract=True, props=["C04", "C19"])
def _shape_float(h):
    """float(S): Simple -> float(area); Connected -> sum over subshapes (n <= 4, `sum(map(float, ..))`
    form is structure-bounded); Disjoint -> loop cut, unbounded; Empty -> 0.0; Whole -> +inf."""
    h.ensure("empty-is-zero", float(EmptyShape()) == 0.0 and isinstance(float(EmptyShape()), float))
    h.ensure("whole-is-inf", float(WholeShape()) == math.inf)
    if not h.sym:
        return
    eng = Engine.cur
    # Simple: float(IntegrateShape.area(self))
    a = eng.fresh_real("area")
    with h.stubs({(IntegrateShape, "area"): staticmethod(lambda shape, nnodes=None: a)}):
        s = object.__new__(SimpleShape)
        r = DefinedShape.__float__(s)
        h.ensure("simple-is-area", AND(EQ(r, a), r.mode == "F"))
    # Connected, n = 0..4
    for n in range(0, 5):
        vals = [eng.fresh_real(f"sub{i}") for i in range(n)]

        class Sub(SimpleShape):
            def __init__(self, v):
                self.v = v

            def __float__(self):
                return self.v

        c = object.__new__(ConnectedShape)
        c._ConnectedShape__subshapes = tuple(Sub(v) for v in vals)
        r = S.float(c)
        tot = 0
        for v in vals:
            tot = tot + v
        h.ensure(f"connected-is-sum[n={n}]", EQ(r, tot))
    # Disjoint: for-loop, unbounded
    fold = SumFold("disj")

    class AbsSub(SimpleShape):
        def __init__(self, k):
            self.k = k

        def __float__(self):
            return fold.value(self.k)

    class AbsDisj(DisjointShape):
        subshapes = AbsSeq("subshapes", AbsSub)

    d = object.__new__(AbsDisj)
    ctl = LoopCtl(h, {0: lambda env, k, seq: (fold.use(k, k + 1), EQ(env["total"], fold.total(k)))[-1]}, fn_name="DisjointShape.__float__")
    cutfn, src = cut(DisjointShape.__float__, ctl)
    try:
        r = cutfn(d)
    except StopPath:
        return
    fold.use(AbsDisj.subshapes.n)
    h.ensure("disjoint-is-sum", EQ(r, fold.total(AbsDisj.subshapes.n)))


# ------------------------------------------------------------------ end to end on polygons (independent closed forms)

def _tri_moments(p, q):
    """moments of the oriented triangle (0, p, q): closed forms, independent of Green/quadrature"""
    cr = spec.cross(p, q)
    return {
        (0, 0): cr * Fraction(1, 2),
        (1, 0): cr * (p[0] + q[0]) * Fraction(1, 6),
        (0, 1): cr * (p[1] + q[1]) * Fraction(1, 6),
        (2, 0): cr * (p[0] * p[0] + p[0] * q[0] + q[0] * q[0]) * Fraction(1, 12),
        (0, 2): cr * (p[1] * p[1] + p[1] * q[1] + q[1] * q[1]) * Fraction(1, 12),
        (1, 1): cr * (2 * p[0] * p[1] + p[0] * q[1] + q[0] * p[1] + 2 * q[0] * q[1]) * Fraction(1, 24),
    }


def _mk_polygon(n, tier):
    @proof(f"C04.polygon[n={n}]", "C04", funcs=["shape.IntegrateShape.polynomial", "shape.IntegrateShape.area", "shape.DefinedShape.__float__",
                                              "jordancurve.IntegrateJordan.vertical", "shape.SimpleShape.__init__"] + VERT,
           tier=tier, props=["C04", "C13"])
    def _(h):
        """whole chain on a polygon with n symbolic rational vertices: IntegrateShape.polynomial equals the
        fan-triangulation closed form (signed, so a clockwise polygon gives minus its complement's value)."""
        pts = [h.point(f"v{i}") for i in range(n)]
        shape = SimpleShape(JordanCurve.from_vertices(pts))
        for ab in ((0, 0), (1, 0), (0, 1), (2, 0), (1, 1), (0, 2)):
            want = 0
            for i in range(n):
                want = want + _tri_moments(pts[i], pts[(i + 1) % n])[ab]
            got = IntegrateShape.polynomial(shape, *ab)
            h.ensure(f"moment[{ab[0]},{ab[1]}]-closed-form", EQ(got, want))
            h.ensure("exact-type", is_wellformed_fraction(got))
        h.ensure("area-is-moment-0-0", EQ(IntegrateShape.area(shape), spec.polygon_area2(pts) * Fraction(1, 2)))
        f = S.float(shape) if h.sym else float(shape)
        h.ensure("float-is-area", EQ(f, spec.polygon_area2(pts) * Fraction(1, 2)))


def _mk_curved(degs, tier):
    name = "".join(map(str, degs))

    @proof(f"C04.curved-area[degrees={name}]", "C04", funcs=["shape.IntegrateShape.area", "jordancurve.IntegrateJordan.vertical"] + VERT, tier=tier)
    def _(h):
        """area of a region bounded by segments of the given degrees equals the exact polynomial boundary
        integral (Green, trusted lemma) for all control points."""
        h.lemma("Green's theorem for piecewise polynomial Jordan boundaries")
        allc = mk_jordan_ctrl(h, "", degs, "F")
        for c in allc:
            h.assume(nonreducible(c))
        jordan = JordanCurve.from_ctrlpoints(allc)
        got = IntegrateJordan.vertical(jordan, 1, 0)
        h.ensure("area-exact", EQ(got, spec.closed_curve_area(allc)))
        got10 = IntegrateJordan.vertical(jordan, 2, 0)
        if all(exact_domain(d, 2, 0) for d in degs):
            h.ensure("first-moment-exact", EQ(got10, 2 * spec.region_moment(allc, 1, 0)))


for _d in (1, 2, 3):
    for _a in range(0, 7):
        for _b in range(0, 4):
            if exact_domain(_d, _a, _b) and _a + _b <= (8 if _d == 1 else 4):
                _mk_segment_ob(_d, _a, _b, "quick" if _a + _b <= 4 else "thorough")
_mk_inexact(2, 3, 2)
_mk_inexact(3, 2, 0)
_mk_inexact(3, 1, 1)
for _d in (1, 2, 3):
    for _a, _b in ((1, 0), (0, 1), (2, 0), (1, 1), (2, 1), (3, 1)):
        _mk_reverse(_d, _a, _b, "quick" if _a + _b <= 2 else "thorough")
_mk_jordan_sum("vertical", IntegratePlanar, "vertical", (2, 1))
_mk_jordan_sum("area", IntegratePlanar, "area", ())
_mk_jordan_sum("lenght", IntegratePlanar, "lenght", ())
_mk_jordan_sum("polynomial", IntegratePlanar, "polynomial", (0, 0))
_mk_polygon(3, "quick")
_mk_polygon(4, "quick")
_mk_polygon(5, "thorough")
_mk_curved((1, 2), "quick")
_mk_curved((2, 2, 1), "quick")
_mk_curved((1, 3, 2), "thorough")
