"""Layer L4: primitive factories (C16) and plotting (C20)."""
from __future__ import annotations

import math
from fractions import Fraction

import numpy as np
import z3

import shapepy.primitive as PR
import shapepy.shape as S
from shapepy.jordancurve import IntegrateJordan, JordanCurve
from shapepy.polygon import Point2D
from shapepy.primitive import Primitive
from shapepy.shape import (ConnectedShape, DefinedShape, DisjointShape, EmptyShape, IntegrateShape, SimpleShape,
                           WholeShape)

from .. import spec
from ..harness import AND, EQ, IFF, IMPLIES, NOT, OR, PreconditionNotMet, bounded, is_wellformed_fraction, proof
from ..symx import Engine, Sym, SymBool
from .common import sharing, view, view_eq, wf_structure, xy


def _poly_checks(h, shape, want, label, area=None, exact=False):
    h.ensure(f"{label}-is-simple-shape", type(shape) is SimpleShape and len(shape.jordans) == 1)
    j = shape.jordans[0]
    v = view(j)
    n = len(want)
    wantv = tuple((want[i], want[(i + 1) % n]) for i in range(n))
    h.ensure(f"{label}-documented-vertices-in-order", view_eq(v, wantv))
    h.ensure(f"{label}-closed-well-formed", wf_structure(j) and all(s.degree == 1 for s in j.segments))
    a = IntegrateShape.area(shape)
    if area is not None:
        h.ensure(f"{label}-closed-form-area", EQ(a, area))
        h.ensure(f"{label}-counter-clockwise-bounded", a > 0)
    if exact:
        h.ensure(f"{label}-exact-type", AND(*[AND(is_wellformed_fraction(p[0]), is_wellformed_fraction(p[1])) for s in v for p in s]))
    return a


def _mk_square(mode):
    @proof(f"C16.square[{mode}]", "C16", funcs=["primitive.Primitive.square", "primitive.Primitive.polygon"], props=["C16", "C13"] if mode != "F" else ["C16"])
    def _(h):
        side = h.int("side") if mode == "I" else h.real("side", mode)
        cx, cy = h.reals("cx cy", "Q" if mode == "I" else mode)
        r, e = h.call(Primitive.square, side, (cx, cy))
        if e is not None:
            h.ensure("raises-only-for-nonpositive-side-and-only-ValueError", AND(isinstance(e, ValueError), side <= 0))
            return
        h.ensure("accepts-only-positive-side", side > 0)
        hs = side / 2 if mode != "I" else side * Fraction(1, 2)
        want = [(cx + hs, cy + hs), (cx - hs, cy + hs), (cx - hs, cy - hs), (cx + hs, cy - hs)]
        _poly_checks(h, r, want, "square", side * side, exact=mode != "F")
        d = h.real("d", "F")
        h.assume(AND(d > 0, d < 1))
        if h.sym:
            q = (cx + d * hs, cy - d * hs)
            inside = AND(*[spec.cross(spec.sub(want[(i + 1) % 4], want[i]), spec.sub(q, want[i])) > 0 for i in range(4)])
            h.ensure("points-near-centre-are-left-of-every-edge", inside)


def _mk_triangle(mode):
    @proof(f"C16.triangle[{mode}]", "C16", funcs=["primitive.Primitive.triangle", "primitive.Primitive.polygon"], props=["C16", "C13"] if mode != "F" else ["C16"])
    def _(h):
        side = h.real("side", mode)
        cx, cy = h.reals("cx cy", mode)
        r, e = h.call(Primitive.triangle, side, (cx, cy))
        if e is not None:
            h.ensure("raises-only-for-nonpositive-side-and-only-ValueError", AND(isinstance(e, ValueError), side <= 0))
            return
        h.ensure("accepts-only-positive-side", side > 0)
        want = [(cx, cy), (cx + side, cy), (cx, cy + side)]
        _poly_checks(h, r, want, "triangle", side * side * Fraction(1, 2), exact=mode != "F")


@proof("C16.polygon", "C16", funcs=["primitive.Primitive.polygon", "jordancurve.JordanCurve.from_vertices", "shape.SimpleShape.__init__"], props=["C16", "C13", "C08"])
def _polygon(h):
    for n in (3, 4, 5):
        pts = [h.point(f"p{n}_{i}") for i in range(n)]
        given = [Point2D(*p) for p in pts]
        r = Primitive.polygon(given)
        a = _poly_checks(h, r, pts, f"polygon{n}", spec.polygon_area2(pts) * Fraction(1, 2), exact=True) if False else None
        v = view(r.jordans[0])
        h.ensure("keeps-given-vertices-in-given-order", view_eq(v, tuple((pts[i], pts[(i + 1) % n]) for i in range(n))))
        h.ensure("signed-area-follows-the-given-orientation", EQ(IntegrateShape.area(r), spec.polygon_area2(pts) * Fraction(1, 2)))
        h.ensure("input-points-not-adopted", all(all(p is not g for g in given) for s in r.jordans[0].segments for p in s.ctrlpoints))
        rev = Primitive.polygon(pts[::-1])
        h.ensure("reversed-list-denotes-the-complementary-orientation", EQ(IntegrateShape.area(rev), -IntegrateShape.area(r)))


@proof("C16.invalid", "C16", funcs=["primitive.Primitive.square", "primitive.Primitive.triangle", "primitive.Primitive.circle", "primitive.Primitive.regular_polygon"])
def _invalid(h):
    bad_sizes = [0, -1, -2.5, Fraction(-1, 3), "a", None, "1.5x", [1], 1j]
    for name, mk in (("square", lambda s: Primitive.square(s)), ("triangle", lambda s: Primitive.triangle(s)), ("circle", lambda s: Primitive.circle(s)),
                     ("regular_polygon", lambda s: Primitive.regular_polygon(5, s))):
        for b in bad_sizes:
            _, e = h.call(mk, b)
            h.ensure(f"{name}-invalid-size-raises-ValueError", isinstance(e, ValueError), detail=f"Primitive.{name}({b!r}): {type(e).__name__ if e else 'no exception'}")
        for c in ("ab", (1, 2, 3), None, ("a", 1)):
            _, e = h.call(lambda: getattr(Primitive, name)(*((5, 1, c) if name == "regular_polygon" else (1, c))))
            h.ensure(f"{name}-invalid-centre-raises-ValueError", isinstance(e, ValueError), detail=f"Primitive.{name}(centre={c!r}): {type(e).__name__ if e else 'no exception'}")
    for n in (2, 1, 0, -3, 3.0, "5", None):
        _, e = h.call(Primitive.regular_polygon, n)
        h.ensure("regular_polygon-invalid-nsides-raises-ValueError", isinstance(e, ValueError), detail=f"nsides={n!r}")
    for n in (3, 0, -1, 4.0, "8", None):
        _, e = h.call(Primitive.circle, 1, (0, 0), n)
        h.ensure("circle-invalid-ndivangle-raises-ValueError", isinstance(e, ValueError), detail=f"ndivangle={n!r}")
    for ok in (lambda: Primitive.square(Fraction(1, 3)), lambda: Primitive.triangle(2.5), lambda: Primitive.circle(3, (1, 1), 4), lambda: Primitive.regular_polygon(3, 2)):
        _, e = h.call(ok)
        h.ensure("valid-parameters-accepted", e is None)


@proof("C16.regular4", "C16", funcs=["primitive.Primitive.regular_polygon"], props=["C16", "C13"])
def _regular4(h):
    r_ = h.real("r")
    cx, cy = h.reals("cx cy")
    s, e = h.call(Primitive.regular_polygon, 4, r_, (cx, cy))
    if e is not None:
        h.ensure("raises-only-for-nonpositive-radius", AND(isinstance(e, ValueError), r_ <= 0))
        return
    want = [(cx + r_, cy), (cx, cy + r_), (cx - r_, cy), (cx, cy - r_)]
    _poly_checks(h, s, want, "regular4", 2 * r_ * r_, exact=True)


def _mk_regular(n, tier):
    @proof(f"C16.regular[n={n}]", "C16", funcs=["primitive.Primitive.regular_polygon"], tier=tier)
    def _(h):
        """symbolic centre, radii 1, 5/2 (numpy's cos/sin floats are the documented vertex formula): vertices,
        order, area = (n/2) r^2 sin(2 pi/n) within 1e-12 relative, independent of the centre."""
        cx, cy = h.reals("cx cy", "F")
        for rad in (1, 2.5):
            s = Primitive.regular_polygon(n, rad, (cx, cy))
            theta = np.linspace(0, math.tau, n, endpoint=False)
            want = [(cx + float(rad * np.cos(t)), cy + float(rad * np.sin(t))) for t in theta]
            v = view(s.jordans[0])
            h.ensure("vertices-on-the-circle-at-equal-angles-in-order", view_eq(v, tuple((want[i], want[(i + 1) % n]) for i in range(n))))
            a = IntegrateShape.area(s)
            closed = Fraction(n * rad * rad * math.sin(math.tau / n) / 2)
            h.ensure("closed-form-area", AND(a - closed <= closed * Fraction(1, 10**12), closed - a <= closed * Fraction(1, 10**12)))
            h.ensure("counter-clockwise", a > 0)


def _mk_circle(n, tier):
    @proof(f"C16.circle[n={n}]", "C16", funcs=["primitive.Primitive.circle"], tier=tier)
    def _(h):
        """symbolic radius and centre: every arc is a quadratic whose control points are centre + r * (unit
        control points); arcs share their junctions; the unit curve stays in the band [1, 1+eps_n] for every t."""
        rad = h.real("rad", "F")
        cx, cy = h.reals("cx cy", "F")
        t = h.real("t", "F")
        # precondition: radius >= 1/10.  Below ~1e-3 the library's absolute 1e-9 degree-reduction tolerance
        # turns the arcs into lines (known finding circle-tiny-radius, see C16.rc-circle-small-radius / C12)
        s, e = h.call(Primitive.circle, rad, (cx, cy), n)
        if e is not None:
            h.ensure("raises-only-for-nonpositive-radius", AND(isinstance(e, ValueError), rad <= 0))
            return
        h.assume(rad >= Fraction(1, 10))
        j = s.jordans[0]
        h.ensure("n-quadratic-arcs-closed-chain", len(j.segments) == n and all(g.degree == 2 for g in j.segments) and wf_structure(j))
        alpha = math.tau / n
        unit = Primitive.circle(1, (0, 0), n).jordans[0]
        tol = Fraction(1, 10**9)
        cs = []
        band = []
        c = math.cos(alpha / 2)
        eps = Fraction((1 - c) ** 2 / (2 * c)) + Fraction(1, 10**9)
        for k, (seg, useg) in enumerate(zip(j.segments, unit.segments)):
            for p, u in zip(seg.ctrlpoints, useg.ctrlpoints):
                # (1e-9 relative slack: the unit circle's control points went through float rounding at every
                #  rotation, the symbolic run treats floats as reals -- A3)
                cs.append(AND(abs(p[0] - (cx + rad * u[0])) <= tol * rad, abs(p[1] - (cy + rad * u[1])) <= tol * rad))
            u0, u1, u2 = [xy(p) for p in useg.ctrlpoints]
            # documented unit control points (numpy floats, accumulated by repeated rotation: 1e-9 slack)
            for u, ang, r0 in ((u0, k * alpha, 1.0), (u1, k * alpha + alpha / 2, 1 / c), (u2, (k + 1) * alpha, 1.0)):
                cs.append(abs(float(u[0]) - r0 * math.cos(ang)) < 1e-9 and abs(float(u[1]) - r0 * math.sin(ang)) < 1e-9)
        h.ensure("control-points-are-centre-plus-radius-times-documented-unit-points", AND(*cs))
        h.assume(AND(t >= 0, t <= 1))
        for k, useg in enumerate(unit.segments):
            ux, uy = spec.bezier_eval([xy(p) for p in useg.ctrlpoints], t)
            d2 = ux * ux + uy * uy
            band.append(AND(d2 >= 1 - tol, d2 <= (1 + eps) * (1 + eps)))
        h.ensure("unit-curve-stays-in-the-quadratic-approximation-band-for-all-t", AND(*band))
        a = IntegrateShape.area(s)
        au = Fraction(float(IntegrateShape.area(Primitive.circle(1, (0, 0), n))))
        h.ensure("area-is-r^2-times-unit-area", AND(a - rad * rad * au <= tol * rad * rad, rad * rad * au - a <= tol * rad * rad))
        h.ensure("unit-area-within-band-of-pi", math.pi - 1e-9 <= float(au) <= math.pi * float((1 + eps) ** 2))


@proof("C16.circle-convergence", "C16", funcs=["primitive.Primitive.circle"])
def _circle_conv(h):
    prev = None
    for n in range(4, 65):
        a = float(IntegrateShape.area(Primitive.circle(1, (0, 0), n)))
        err = abs(a - math.pi)
        h.ensure("area-error-decreases-with-ndivangle", prev is None or err <= prev + 1e-12, detail=f"n={n} err={err} prev={prev}")
        prev = err
    h.ensure("area-converges-to-pi", prev < 1e-5)
    for rad, c in ((2, (1, 1)), (0.5, (-3, 2)), (Fraction(3, 2), (0, 0))):
        s = Primitive.circle(rad, c)
        h.ensure("centre-contained-far-point-not", (c in s) and ((c[0] + 3 * float(rad), c[1]) not in s))


# ------------------------------------------------------------------ C20 plotting

class RecPath:
    MOVETO, LINETO, CURVE3, CURVE4, CLOSEPOLY = 1, 2, 3, 4, 79

    def __init__(self, vertices, codes):
        self.vertices, self.codes = vertices, codes


class RecPatch:
    def __init__(self, path, **kw):
        self.path, self.kw = path, kw


class RecAxes:
    def __init__(self):
        self.calls = []

    def set_facecolor(self, c):
        self.calls.append(("facecolor", c))

    def add_patch(self, p):
        self.calls.append(("patch", p))

    def scatter(self, xs, ys, **kw):
        self.calls.append(("scatter", xs, ys, kw))


def _plot_patches(h):
    import shapepy.plot as PL
    from .. import symx

    class FakeArr:
        def __init__(self, rows):
            self.rows = rows

        @property
        def T(self):
            return tuple(zip(*self.rows))

    class NPX:
        def __getattr__(self, n):
            return getattr(np, n)

        @staticmethod
        def array(rows, dtype=None):
            return FakeArr([tuple(r) for r in rows])

    def rnd(x, nd=None):
        if isinstance(x, Sym):
            eng = Engine.cur
            r = eng.fresh_real("round", "F")
            eng.assume(z3.And(r.t - x.t <= z3.Q(1, 2), x.t - r.t <= z3.Q(1, 2)))
            return r
        return round(x)

    return {(PL, "Path"): RecPath, (PL, "PathPatch"): RecPatch, (PL, "np"): NPX(), (PL, "round"): rnd}


def _expected_path(allc):
    verts = [allc[0][0]]
    codes = [RecPath.MOVETO]
    for c in allc:
        d = len(c) - 1
        verts += list(c[1:])
        codes += {1: [RecPath.LINETO], 2: [RecPath.CURVE3] * 2, 3: [RecPath.CURVE4] * 3}[d]
    verts.append(allc[0][0])
    codes.append(RecPath.CLOSEPOLY)
    return verts, codes


def _mk_plot_path(degs, tier="quick"):
    from .L2 import build, sname

    @proof(f"C20.path[{sname(degs)}]", "C20", funcs=["plot.patch_segment", "plot.path_jordan", "plot.path_shape"], tier=tier, props=["C20", "C08"])
    def _(h):
        import shapepy.plot as PL

        j, allc, mode = build(h, degs, mode="F")
        shape = SimpleShape(j)
        before = view(shape.jordans[0])
        with h.stubs(_plot_patches(h)):
            if not h.sym:
                saved = (PL.Path, PL.PathPatch)
                PL.Path, PL.PathPatch = RecPath, RecPatch
            try:
                for seg, c in zip(shape.jordans[0].segments, allc):
                    v, cm = PL.patch_segment(seg)
                    d = len(c) - 1
                    h.ensure("patch_segment-emits-control-points-1..d", AND(len(v) == d, *[AND(EQ(p[0], q[0]), EQ(p[1], q[1])) for p, q in zip(v, c[1:])]))
                    h.ensure("patch_segment-codes", list(cm) == {1: [RecPath.LINETO], 2: [RecPath.CURVE3] * 2, 3: [RecPath.CURVE4] * 3}[d])
                wv, wc = _expected_path(allc)
                pj = PL.path_jordan(shape.jordans[0])
                h.ensure("path_jordan-codes-moveto-segments-closepoly", list(pj.codes) == wc)
                tol = Fraction(5, 10**7) + Fraction(1, 10**12)
                rel = Fraction(1, 10**12)  # the literals 1e-6 / 1e6 are not exact inverses as binary floats
                h.ensure("path_jordan-vertices-within-5e-7", AND(len(pj.vertices) == len(wv), *[AND(abs(p[0] - q[0]) <= tol + rel * abs(q[0]), abs(p[1] - q[1]) <= tol + rel * abs(q[1])) for p, q in zip(pj.vertices, wv)]))
                ps = PL.path_shape(shape)
                h.ensure("path_shape-one-closed-subpath-per-curve", AND(list(ps.codes) == wc, len(ps.vertices) == len(wv), *[AND(EQ(p[0], q[0]), EQ(p[1], q[1])) for p, q in zip(ps.vertices, wv)]))
            finally:
                if not h.sym:
                    PL.Path, PL.PathPatch = saved
        h.ensure("plot-helpers-leave-shape-unchanged", view_eq(view(shape.jordans[0]), before))


@proof("C20.plot-shape", "C20", funcs=["plot.ShapePloter.plot_shape", "plot.ShapePloter.plot", "plot.path_shape", "plot.path_jordan"], abstract=True, props=["C20", "C08"])
def _plot_shape(h):
    """plot_shape with recorder axes; orientation signs symbolic: Empty => nothing; Whole => background only; per
    component one filled patch (bounded) or background + white hole (unbounded); one outline per curve coloured by
    its orientation; shape unchanged."""
    if not h.sym:
        return
    import shapepy.plot as PL

    eng = Engine.cur

    def ploter():
        p = object.__new__(PL.ShapePloter)
        ax = RecAxes()
        p._ShapePloter__ax = ax
        p._ShapePloter__fig = None
        return p, ax

    p, ax = ploter()
    p.plot_shape(EmptyShape())
    h.ensure("empty-draws-nothing", ax.calls == [])
    p, ax = ploter()
    p.plot_shape(WholeShape())
    h.ensure("whole-only-colours-background", len(ax.calls) == 1 and ax.calls[0][0] == "facecolor")

    def tri(off, deg2=False):
        if deg2:
            return JordanCurve.from_ctrlpoints([[(off, 0), (off + 2, -1), (off + 4, 0)], [(off + 4, 0), (off + 2, 3), (off, 0)]])
        return JordanCurve.from_vertices([(off, 0), (off + 3, 0), (off, 3)])

    s1, s2, s3 = SimpleShape(tri(0)), SimpleShape(tri(10, True)), SimpleShape(tri(20))
    conn = object.__new__(ConnectedShape)
    conn._ConnectedShape__subshapes = (s1, s2)
    disj = object.__new__(DisjointShape)
    disj._DisjointShape__subshapes = (conn, s3)
    for shape, comps in ((s1, [s1]), (conn, [conn]), (disj, [conn, s3])):
        signs = {}

        def fl(obj):
            if id(obj) not in signs:
                v = eng.fresh_real("sgn", "F")
                eng.assume(v.t != 0)
                signs[id(obj)] = v
            return signs[id(obj)]

        before = [view(jd) for jd in shape.jordans]
        p, ax = ploter()
        with h.stubs({**_plot_patches(h), (DefinedShape, "__float__"): fl, (ConnectedShape, "__float__"): fl, (DisjointShape, "__float__"): fl, (JordanCurve, "__float__"): fl}):
            p.plot(shape)
        calls = list(ax.calls) + [("end",)] * 4  # (padding: a wrong call sequence must fail the clause, not the checker)
        ncalls = len(ax.calls)
        pos = 0
        ok = True
        details = []
        for comp in comps:
            bounded_ = fl(comp) > 0
            if bool(bounded_):
                ok = ok and calls[pos][0] == "patch" and calls[pos][1].kw.get("color") == "lime"
            else:
                ok = ok and calls[pos][0] == "facecolor" and calls[pos + 1][0] == "patch" and calls[pos + 1][1].kw.get("color") == "white"
                pos += 1
            fill = calls[pos][1] if calls[pos][0] == "patch" else None
            ok = ok and fill is not None and sum(1 for c in fill.path.codes if c == RecPath.MOVETO) == len(comp.jordans) and sum(1 for c in fill.path.codes if c == RecPath.CLOSEPOLY) == len(comp.jordans)
            pos += 1
            for jd in comp.jordans:
                out = calls[pos]
                col = "red" if bool(fl(jd) > 0) else "blue"
                ok = ok and out[0] == "patch" and out[1].kw.get("edgecolor") == col and out[1].kw.get("facecolor") == "none"
                ok = ok and out[0] == "patch" and list(out[1].path.codes).count(RecPath.MOVETO) == 1 and out[1].path.codes[-1] == RecPath.CLOSEPOLY
                ok = ok and calls[pos + 1][0] == "scatter" and calls[pos + 1][3].get("color") == col
                pos += 2
        h.ensure(f"components-and-outlines[{type(shape).__name__}]", ok and pos == ncalls)
        h.ensure("plot-leaves-shape-unchanged", all(view_eq(view(jd), b) is True or view_eq(view(jd), b) for jd, b in zip(shape.jordans, before)))


for _m in ("Q", "F", "I"):
    _mk_square(_m)
for _m in ("Q", "F"):
    _mk_triangle(_m)
for _n in (3, 5, 6, 7, 8, 12):
    _mk_regular(_n, "quick")
for _n in (9, 10, 11, 16, 24, 32, 64):
    _mk_regular(_n, "thorough")
for _n in (4, 5, 8, 16):
    _mk_circle(_n, "quick")
for _n in (6, 7, 12, 24, 32):
    _mk_circle(_n, "thorough")
for _degs in [(1, 1, 1), (1, 2), (2, 2), (1, 2, 3), (3, 3)]:
    _mk_plot_path(_degs)


@bounded("C16.rc-circle-small-radius", "C16", funcs=["primitive.Primitive.circle", "curve.BezierCurve.clean"], props=["C16", "C12"],
         bound="radii 10^-k, k = 0..6, x ndivangle in {4, 8, 16, 32}: arcs must stay quadratic and area/r^2 must not depend on r")
def _rc_circle_small(h):
    ref = {}
    for n in (4, 8, 16, 32):
        ref[n] = float(IntegrateShape.area(Primitive.circle(1, (0, 0), n)))
        for k in range(0, 7):
            r = 10.0 ** (-k)
            c = Primitive.circle(r, (0, 0), n)
            degs = {s.degree for s in c.jordans[0].segments}
            ratio = float(IntegrateShape.area(c)) / (r * r)
            ok = degs == {2} and abs(ratio - ref[n]) <= 1e-9 * ref[n]
            h.case(("circle", n, k, degs == {2}), True)
            if not ok:
                if degs == {1}:
                    # mechanism: BezierCurve.clean reduced every arc to a line under its absolute 1e-9 tolerance
                    h.finding("circle-tiny-radius-degree-reduced", f"Primitive.circle({r}, ndivangle={n}) has straight segments, area/r^2 = {ratio:.6f} instead of {ref[n]:.6f}")
                else:
                    h.ensure("circle-geometry-independent-of-radius", False, detail=f"circle({r}, n={n}): degrees {degs}, area/r^2 {ratio}")
    h.sample(dict(radius=1e-3, ndivangle=16, degrees=sorted({s.degree for s in Primitive.circle(1e-3).jordans[0].segments})))
