"""Layer L3, part a: operator dispatch with uninterpreted regions (C01, C03 consequences, C06 kinds, C08 short-cuts)."""
from __future__ import annotations

import z3

import shapepy.shape as S
from shapepy.shape import (BaseShape, ConnectedShape, DefinedShape, DisjointShape, EmptyShape, FollowPath, SimpleShape,
                           WholeShape)

from ..ghost import Regions
from ..harness import AND, EQ, IFF, IMPLIES, NOT, OR, CalleePre, T, proof
from ..symx import Engine, SymBool

KINDS = {"Empty": EmptyShape, "Whole": WholeShape, "Simple": SimpleShape, "Connected": ConnectedShape, "Disjoint": DisjointShape}
DEFINED = ("Simple", "Connected", "Disjoint")


class World:
    """ghost world of one harness path: regions, contract stubs of the callees of the operator layer."""

    def __init__(self, h):
        self.h = h
        self.g = Regions()
        self.eng = Engine.cur
        self.log = []
        for ax in self.g.axioms():
            self.eng.assume(ax)

    def new(self, kind):
        cls = KINDS[kind]
        if kind in ("Empty", "Whole"):
            return cls()
        o = object.__new__(cls)
        self.g.gid(o)
        return o

    def q(self):
        return z3.Reals("q1 q2")

    def off(self, q1, q2, *shapes):
        return z3.And(*[z3.Not(self.g.bd(s, q1, q2)) for s in shapes])

    def same_region(self, a, b):
        q1, q2 = self.q()
        self.eng.assume(z3.ForAll([q1, q2], z3.And(self.g.r(b, q1, q2) == self.g.r(a, q1, q2), self.g.bd(b, q1, q2) == self.g.bd(a, q1, q2))))

    # ---- contract stubs
    def stub_copy(self, x):
        """copy(S): a fresh object denoting the same region (C08.fresh is proved separately on real copies)"""
        self.log.append(("copy", x))
        if isinstance(x, (EmptyShape, WholeShape)):
            return x
        r = self.new(type(x).__name__.replace("Shape", ""))
        self.same_region(x, r)
        return r

    def stub_contains(self, this, other):
        """DefinedShape.__contains__(shape) per C03: result <=> region(other) subset of region(this), off the boundaries"""
        if not isinstance(other, BaseShape):
            raise CalleePre("stub of DefinedShape.__contains__ used with a non-shape")
        self.log.append(("in", other, this))
        b = self.eng.fresh_bool("subset")
        q1, q2 = self.q()
        self.eng.assume(b.t == z3.ForAll([q1, q2], z3.Implies(z3.And(self.off(q1, q2, this, other), self.g.r(other, q1, q2)), self.g.r(this, q1, q2))))
        return bool(b)

    def stub_invert(self, this):
        """~S per C01/C05: complement off the boundary, same boundary"""
        self.log.append(("invert", this))
        kind = {"SimpleShape": "Simple", "ConnectedShape": "Disjoint", "DisjointShape": "Connected"}[type(this).__name__]
        r = self.new(kind)
        q1, q2 = self.q()
        self.eng.assume(z3.ForAll([q1, q2], z3.And(z3.Implies(z3.Not(self.g.bd(this, q1, q2)), self.g.r(r, q1, q2) == z3.Not(self.g.r(this, q1, q2))),
                                                    self.g.bd(r, q1, q2) == self.g.bd(this, q1, q2))))
        return r

    def mk_recombine(self, op):
        """K_or / K_and (assumed + bounded): the curves returned by FollowPath.or_shapes(A, B) bound A u B;
        no curve at all means the union is the whole plane (dually for and)."""

        class JT(tuple):
            pass

        def stub(a, b):
            if not (isinstance(a, BaseShape) and isinstance(b, BaseShape)):
                raise CalleePre("or_shapes/and_shapes need two shapes")
            self.log.append((op, a, b))
            e = self.eng.fresh_bool("nocurves")
            q1, q2 = self.q()
            if bool(e):
                if op == "or":
                    self.eng.assume(z3.ForAll([q1, q2], z3.Implies(self.off(q1, q2, a, b), z3.Or(self.g.r(a, q1, q2), self.g.r(b, q1, q2)))))
                else:
                    self.eng.assume(z3.ForAll([q1, q2], z3.Implies(self.off(q1, q2, a, b), z3.Not(z3.And(self.g.r(a, q1, q2), self.g.r(b, q1, q2))))))
                return JT()
            t = JT(("J",))
            t.ops = (op, a, b)
            return t

        return stub

    def stub_from_jordans(self, js):
        if not hasattr(js, "ops"):
            raise CalleePre("ShapeFromJordans called with curves that do not come from or_shapes/and_shapes")
        if len(js) == 0:
            raise CalleePre("ShapeFromJordans requires at least one curve")
        op, a, b = js.ops
        self.log.append(("from_jordans", op))
        k = self.eng.choose(3, "kind")
        r = self.new(DEFINED[k])
        q1, q2 = self.q()
        comb = z3.Or if op == "or" else z3.And
        self.eng.assume(z3.ForAll([q1, q2], z3.Implies(self.off(q1, q2, a, b), self.g.r(r, q1, q2) == comb(self.g.r(a, q1, q2), self.g.r(b, q1, q2)))))
        self.eng.assume(z3.ForAll([q1, q2], z3.Implies(self.g.bd(r, q1, q2), z3.Or(self.g.bd(a, q1, q2), self.g.bd(b, q1, q2)))))
        return r

    def patches(self):
        return {
            (S, "copy"): self.stub_copy,
            (DefinedShape, "__contains__"): lambda this, other: self.stub_contains(this, other),
            (DefinedShape, "__invert__"): lambda this: self.stub_invert(this),
            (SimpleShape, "__invert__"): lambda this: self.stub_invert(this),
            (ConnectedShape, "__invert__"): lambda this: self.stub_invert(this),
            (FollowPath, "or_shapes"): staticmethod(self.mk_recombine("or")),
            (FollowPath, "and_shapes"): staticmethod(self.mk_recombine("and")),
            (S, "ShapeFromJordans"): self.stub_from_jordans,
        }


OPS = {
    "or": (lambda a, b: a | b, lambda ra, rb: z3.Or(ra, rb)),
    "and": (lambda a, b: a & b, lambda ra, rb: z3.And(ra, rb)),
    "sub": (lambda a, b: a - b, lambda ra, rb: z3.And(ra, z3.Not(rb))),
    "xor": (lambda a, b: a ^ b, lambda ra, rb: z3.Xor(ra, rb)),
    "add": (lambda a, b: a + b, lambda ra, rb: z3.Or(ra, rb)),
    "mul": (lambda a, b: a * b, lambda ra, rb: z3.And(ra, rb)),
}


def _mk_dispatch(op, ka, kb):
    fn, sem = OPS[op]

    @proof(f"C01.dispatch[{op},{ka},{kb}]", "C01", abstract=True, props=["C01", "C06", "C08"],
           funcs=["shape.DefinedShape.__or__", "shape.DefinedShape.__and__", "shape.BaseShape.__sub__", "shape.BaseShape.__xor__", "shape.BaseShape.__add__",
                  "shape.BaseShape.__mul__", "shape.EmptyShape.__or__", "shape.EmptyShape.__and__", "shape.EmptyShape.__sub__", "shape.WholeShape.__or__",
                  "shape.WholeShape.__and__", "shape.WholeShape.__sub__", "shape.EmptyShape.__invert__", "shape.WholeShape.__invert__"])
    def _(h):
        """the real operator on two shapes of the given kinds, regions uninterpreted, callees replaced by their
        contracts: pointwise semantics at an arbitrary point off both boundaries, boundary inclusion (what makes
        nesting compose), the result is a shape, singletons where the region is empty / the plane."""
        if not h.sym:
            return
        h.assumed_contract("K_or/K_and: FollowPath.or_shapes/and_shapes + ShapeFromJordans bound the union/intersection (bounded: C01.rc-*)")
        h.assumed_contract("DefinedShape.__contains__(shape) <=> subset off the boundaries (C03: composition proved, kernel bounded)")
        h.lemma("structural induction over operator expressions: each operator contract re-establishes `boundary(result) subset of boundary(A) u boundary(B)`")
        w = World(h)
        a, b = w.new(ka), w.new(kb)
        px, py = z3.Reals("px py")
        with h.stubs(w.patches()):
            r = fn(a, b)
        g = w.g
        off = w.off(px, py, a, b)
        h.ensure("result-is-a-shape", isinstance(r, BaseShape))
        h.ensure("pointwise-semantics-off-boundaries", SymBool(z3.Implies(off, g.r(r, px, py) == sem(g.r(a, px, py), g.r(b, px, py)))))
        h.ensure("result-boundary-within-operand-boundaries", SymBool(z3.Implies(g.bd(r, px, py), z3.Or(g.bd(a, px, py), g.bd(b, px, py)))))
        h.ensure("result-is-not-an-operand-object", (r is not a and r is not b) or isinstance(r, (EmptyShape, WholeShape)))


def _mk_unary(op, ka):
    @proof(f"C01.dispatch[{op},{ka}]", "C01", abstract=True, props=["C01", "C06", "C05"],
           funcs=["shape.BaseShape.__neg__", "shape.EmptyShape.__invert__", "shape.WholeShape.__invert__"])
    def _(h):
        if not h.sym:
            return
        w = World(h)
        a = w.new(ka)
        px, py = z3.Reals("px py")
        with h.stubs(w.patches()):
            r = (~a) if op == "invert" else (-a)
        g = w.g
        h.ensure("complement-off-boundary", SymBool(z3.Implies(z3.Not(g.bd(a, px, py)), g.r(r, px, py) == z3.Not(g.r(a, px, py)))))
        h.ensure("same-boundary", SymBool(g.bd(r, px, py) == g.bd(a, px, py)))
        if ka == "Empty":
            h.ensure("complement-of-empty-is-whole-singleton", r is WholeShape())
        if ka == "Whole":
            h.ensure("complement-of-whole-is-empty-singleton", r is EmptyShape())


def _mk_nest(op1, op2):
    @proof(f"C01.nesting-depth-2[{op1},{op2}]", "C01", abstract=True, tier="quick", timeout=900, max_paths=40000,
           funcs=["shape.DefinedShape.__or__", "shape.DefinedShape.__and__", "shape.BaseShape.__sub__", "shape.BaseShape.__xor__"])
    def _nest(h):
        """closure under nesting, checked directly for (A op1 B) op2 C with three Defined operands (all real operator
        code, stubs only at the leaves): the induction step instantiated."""
        if not h.sym:
            return
        w = World(h)
        a, b, c = w.new("Simple"), w.new("Connected"), w.new("Disjoint")
        px, py = z3.Reals("px py")
        with h.stubs(w.patches()):
            r = OPS[op2][0](OPS[op1][0](a, b), c)
        g = w.g
        off = w.off(px, py, a, b, c)
        want = OPS[op2][1](OPS[op1][1](g.r(a, px, py), g.r(b, px, py)), g.r(c, px, py))
        h.ensure("pointwise", SymBool(z3.Implies(off, g.r(r, px, py) == want)))
        h.ensure("boundary-inclusion", SymBool(z3.Implies(g.bd(r, px, py), z3.Or(g.bd(a, px, py), g.bd(b, px, py), g.bd(c, px, py)))))


for _o1 in ("or", "and", "sub"):
    for _o2 in ("or", "and", "sub"):
        _mk_nest(_o1, _o2)


@proof("C06.singletons", "C06", funcs=["shape.SingletonShape.__new__", "shape.SingletonShape.__copy__", "shape.SingletonShape.__deepcopy__",
                                       "shape.EmptyShape.__contains__", "shape.WholeShape.__contains__", "shape.EmptyShape.__float__"],
       props=["C06", "C08", "C02", "C03"])
def _singletons(h):
    import copy as _c

    e, w = EmptyShape(), WholeShape()
    h.ensure("empty-is-singleton", EmptyShape() is e and type(e) is EmptyShape)
    h.ensure("whole-is-singleton", WholeShape() is w and type(w) is WholeShape)
    h.ensure("empty-and-whole-differ", e is not w)
    h.ensure("copy-returns-self", _c.copy(e) is e and _c.deepcopy(e) is e and _c.copy(w) is w and _c.deepcopy(w) is w)
    h.ensure("invert-swaps", (~e) is w and (~w) is e and (-e) is w)
    h.ensure("empty-contains-only-empty", (e in e) is True and (w in e) is False and ((0, 0) in e) is False)
    h.ensure("whole-contains-everything", (e in w) is True and (w in w) is True and ((0, 0) in w) is True and ((10**9, -3) in w) is True)
    h.ensure("empty-ops", (e | e) is e and (e & w) is e and (e - w) is e and (e | w) is w and (w & e) is e and (w | e) is w and (w - w) is e and (w - e) is w)
    h.ensure("xor-singletons", (e ^ e) is e and (w ^ w) is e and (e ^ w) is w and (w ^ e) is w)
    from shapepy import Primitive

    sq = Primitive.square(2)
    for s in (sq, ~sq):
        h.ensure("empty-contained-in-defined", (e in s) is True and (w in s) is False)
        h.ensure("defined-in-singletons", (s in w) is True and (s in e) is False)
        h.ensure("ops-with-singletons-copy", (s | e) is not s and (s & w) is not s and (s | w) is w and (s & e) is e and (e | s) is not s and (w & s) is not s)
        h.ensure("sub-singletons", (s - w) is e and (e - s) is e and (s - e) is not s)


for _op in OPS:
    for _ka in KINDS:
        for _kb in KINDS:
            _mk_dispatch(_op, _ka, _kb)
for _ka in KINDS:
    _mk_unary("invert", _ka)
    _mk_unary("neg", _ka)
