"""C14 -- curve intersection reports exactly the crossings, with the documented encoding."""
from __future__ import annotations

from fractions import Fraction

from shapepy.curve import Intersection, PlanarCurve
from shapepy.jordancurve import JordanCurve
from shapepy.polygon import Point2D

from .. import spec
from ..harness import AND, EQ, IFF, IMPLIES, NOT, OR, bounded, proof
from ..symx import Engine, Sym
from .common import mk_segment, xy

LINES = ["curve.Intersection.lines", "polygon.Point2D.cross", "polygon.Point2D.__sub__"]


def _two_lines(h, mode="Q"):
    A, ca = mk_segment(h, "a", 1, mode)
    B, cb = mk_segment(h, "b", 1, mode)
    return A, ca, B, cb


@proof("C14.lines-sound", "C14", funcs=LINES, props=["C14", "C13", "C01", "C05"])
def _lines_sound(h):
    A, ca, B, cb = _two_lines(h)
    r = Intersection.lines(A, B)
    h.ensure("result-shape", len(r) in (0, 2))
    if len(r) == 2:
        u, v = r
        pa = spec.bezier_eval(ca, u)
        pb = spec.bezier_eval(cb, v)
        h.ensure("parameters-in-range", AND(u >= 0, u <= 1, v >= 0, v <= 1))
        h.ensure("same-point", AND(EQ(pa[0], pb[0]), EQ(pa[1], pb[1])))
        from ..harness import is_wellformed_fraction

        h.ensure("exact-type", AND(is_wellformed_fraction(u), is_wellformed_fraction(v)))
    h.ensure("operands-unchanged", AND(*[AND(EQ(p[0], c[0]), EQ(p[1], c[1])) for p, c in
                                          zip(list(A.ctrlpoints) + list(B.ctrlpoints), ca + cb)]))


@proof("C14.lines-complete", "C14", funcs=LINES, props=["C14", "C01", "C05"])
def _lines_complete(h):
    A, ca, B, cb = _two_lines(h)
    u, v = h.real("u"), h.real("v")
    r = Intersection.lines(A, B)
    da = spec.sub(ca[1], ca[0])
    db = spec.sub(cb[1], cb[0])
    pa = spec.bezier_eval(ca, u)
    pb = spec.bezier_eval(cb, v)
    crossing = AND(u >= 0, u <= 1, v >= 0, v <= 1, NOT(EQ(spec.cross(da, db), 0)), EQ(pa[0], pb[0]), EQ(pa[1], pb[1]))
    if len(r) == 0:
        h.ensure("miss-means-no-transversal-crossing", NOT(crossing))
    else:
        h.ensure("the-crossing-is-the-reported-one", IMPLIES(crossing, AND(EQ(r[0], u), EQ(r[1], v))))


@proof("C14.lines-swap", "C14", funcs=LINES)
def _lines_swap(h):
    A, ca, B, cb = _two_lines(h)
    r = Intersection.lines(A, B)
    s = Intersection.lines(B, A)
    h.ensure("same-arity", len(r) == len(s))
    if len(r) == 2 and len(s) == 2:
        h.ensure("roles-swapped", AND(EQ(r[0], s[1]), EQ(r[1], s[0])))


def _pc_equal(ca, cb):
    tol = Fraction(1e-9)
    return AND(*[AND(abs(p[0] - q[0]) <= tol, abs(p[1] - q[1]) <= tol) for p, q in zip(ca, cb)])


@proof("C14.and-lines", "C14", funcs=["curve.PlanarCurve.__and__", "curve.PlanarCurve.box", "polygon.Box.__and__",
                                       "curve.PlanarCurve.__eq__", "polygon.Point2D.__eq__"] + LINES, timeout=600, props=["C14", "C01"])
def _and_lines(h):
    """the real PlanarCurve.__and__ on two straight segments (box test, equality test, exact solver
    all inlined): None => no transversal crossing; () => the segments are identical (== within 1e-9);
    one pair otherwise, which is a common point."""
    A, ca, B, cb = _two_lines(h)
    u, v = h.real("u"), h.real("v")
    r = A & B
    da = spec.sub(ca[1], ca[0])
    db = spec.sub(cb[1], cb[0])
    pa = spec.bezier_eval(ca, u)
    pb = spec.bezier_eval(cb, v)
    crossing = AND(u >= 0, u <= 1, v >= 0, v <= 1, NOT(EQ(spec.cross(da, db), 0)), EQ(pa[0], pb[0]), EQ(pa[1], pb[1]))
    if r is None:
        h.ensure("none-means-no-transversal-crossing", NOT(crossing))
    elif len(r) == 0:
        h.ensure("empty-tuple-marks-identical-segments-only", _pc_equal(ca, cb))
    else:
        h.ensure("one-pair", len(r) == 1 and len(r[0]) == 2)
        uu, vv = r[0]
        qa = spec.bezier_eval(ca, uu)
        qb = spec.bezier_eval(cb, vv)
        h.ensure("pair-is-common-point", AND(uu >= 0, uu <= 1, vv >= 0, vv <= 1, EQ(qa[0], qb[0]), EQ(qa[1], qb[1])))


class _Seg:
    pass


def _mk_assembly(n, m, tier, eqb, endp):
    @proof(f"C14.assembly[{n}x{m},equal_beziers={eqb},end_points={endp}]", "C14", funcs=["jordancurve.JordanCurve.intersection", "jordancurve.JordanCurve.__intersection",
                                                 "jordancurve.JordanCurve.__and__"], tier=tier, abstract=True, max_paths=200000, timeout=900)
    def _(h):
        """modular over PlanarCurve.__and__ (stub: None | () | one symbolic pair in [0,1]^2, chosen
        non-deterministically per segment pair): rows, indices, flags, order."""
        h.assumed_contract("PlanarCurve.__and__ returns None, () or a tuple of (u, v) pairs in [0,1]^2 (proved for lines: C14.and-lines; curved: bounded C14.rc-curved)")
        A = _closed(n, 0)
        B = _closed(m, 10)
        eng = Engine.cur
        outcomes = {}

        def stub_and(sa, sb):
            ia = next(i for i, s in enumerate(A.segments) if s is sa)
            ib = next(i for i, s in enumerate(B.segments) if s is sb)
            k = eng.choose(3, f"and{ia}_{ib}")
            if k == 0:
                outcomes[(ia, ib)] = None
                return None
            if k == 1:
                outcomes[(ia, ib)] = ()
                return ()
            u = eng.fresh_real(f"u{ia}_{ib}")
            v = eng.fresh_real(f"v{ia}_{ib}")
            eng.assume(z3_and(u >= 0, u <= 1, v >= 0, v <= 1))
            outcomes[(ia, ib)] = (u, v)
            return ((u, v),)

        if h.sym:
            eng.allow_hash = True  # rows differ in their (a, b) prefix: de-duplication is immaterial
        if True:
            if True:
                outcomes.clear()
                with h.stubs({(PlanarCurve, "__and__"): stub_and}):
                    if eqb and endp:
                        res = A.intersection(B)
                    elif not eqb and not endp:
                        res = A & B
                    else:
                        res = A.intersection(B, equal_beziers=eqb, end_points=endp)
                tag = ""
                h.ensure("result-is-tuple-of-4-tuples" + tag, isinstance(res, tuple) and all(isinstance(r, tuple) and len(r) == 4 for r in res))
                rows = {(r[0], r[1]): r for r in res}
                h.ensure("one-row-per-pair" + tag, len(rows) == len(res))
                h.ensure("indices-in-range" + tag, all(0 <= a < n and 0 <= b < m for a, b in rows))
                h.ensure("sorted" + tag, [(r[0], r[1]) for r in res] == sorted(rows))
                cs = []
                for key, out in outcomes.items():
                    row = rows.get(key)
                    if out is None:
                        cs.append(row is None)
                    elif out == ():
                        cs.append((row is not None and row[2] is None and row[3] is None) if eqb else row is None)
                    else:
                        u, v = out
                        is_end = AND(OR(EQ(u, 0), EQ(u, 1)), OR(EQ(v, 0), EQ(v, 1)))
                        if endp:
                            cs.append(row is not None and row[2] is u and row[3] is v)
                        else:
                            cs.append(IFF(is_end, row is None))
                            if row is not None:
                                cs.append(row[2] is u and row[3] is v)
                h.ensure("rows-match-pair-results" + tag, AND(*cs))
                h.ensure("all-pairs-visited" + tag, len(outcomes) == n * m)


def z3_and(*xs):
    from ..harness import T
    import z3

    return z3.And(*[T(x) for x in xs])


def _closed(n, off):
    """a concrete closed curve with n quadratic arcs around (off, 0) (geometry is irrelevant: `&` is stubbed)"""
    import math

    pts = []
    for i in range(n):
        a0 = Fraction(i, 1)
        pts.append(i)
    ring = [(off + [2, 0, -2, 0, 1, -1][i % 6] + i // 6, [0, 2, 0, -2, 1, -1][i % 6]) for i in range(n)]
    allc = []
    for i in range(n):
        p, q = ring[i], ring[(i + 1) % n]
        mid = (Fraction(p[0] + q[0], 2) * Fraction(3, 2) - Fraction(off, 2), Fraction(p[1] + q[1], 2) * Fraction(3, 2) + Fraction(1, 7))
        allc.append([p, mid, q])
    return JordanCurve.from_ctrlpoints(allc)


for _e in (True, False):
    for _p in (True, False):
        _mk_assembly(2, 2, "quick", _e, _p)
        if _p:  # (the end_points=False filter branches four times per reported pair: 2x3 exceeds the path budget;
            #  the filter logic itself does not depend on the number of pairs and is covered by 2x2)
            _mk_assembly(2, 3, "thorough", _e, _p)


@proof("C14.canary-false-contract", "C14", funcs=LINES, expect="refuted", note="deliberately false contract: must be refuted and replayed (2.8)")
def _canary(h):
    A, ca, B, cb = _two_lines(h)
    r = Intersection.lines(A, B)
    if len(r) == 2:
        h.ensure("canary-param0-at-least-half", r[0] >= Fraction(1, 2))


def _mk_filters(n):
    @proof(f"C14.filters[n={n}]", "C14", funcs=["curve.Intersection.filter_distance", "curve.Intersection.filter_parameters"], props=["C14"], timeout=600, tier="thorough")
    def _(h):
        """the two list filters of the curved branch, for all parameter values and control points: filter_distance keeps,
        in order, exactly the pairs whose points are closer than the bound; filter_parameters keeps a pair iff no
        earlier *kept* pair lies within the parameter distance (first occurrence wins), in order."""
        h.assumed_contract("abs(Point2D) is the Euclidean norm: s >= 0, s*s = x*x + y*y (proved: L0.point-abs)")
        A, ca = mk_segment(h, "a", 1, "F")
        B, cb = mk_segment(h, "b", 1, "F")

        def stub_abs(pt):
            import z3 as _z3
            from ..symx import lift as _lift

            eng = Engine.cur
            s_ = eng.fresh_real("norm", "F")
            eng.assume(_z3.And(s_.t >= 0, s_.t * s_.t == _lift(pt[0] * pt[0] + pt[1] * pt[1])))
            return s_

        _abs_patch = {(Point2D, "__abs__"): stub_abs} if h.sym else {}
        us = [h.real(f"u{i}", "F") for i in range(n)]
        vs = [h.real(f"v{i}", "F") for i in range(n)]
        pairs = list(zip(us, vs))
        tol = Fraction(1e-6)
        with h.stubs(_abs_patch):
            out = Intersection.filter_distance(A, B, pairs, 1e-6)
        keep = []
        for (u, v) in pairs:
            pa, pb = spec.bezier_eval(ca, u), spec.bezier_eval(cb, v)
            d2 = (pa[0] - pb[0]) * (pa[0] - pb[0]) + (pa[1] - pb[1]) * (pa[1] - pb[1])
            keep.append(d2 < tol * tol)
        kept_idx = [i for i, p in enumerate(pairs) if any(q is p or (q[0] is p[0] and q[1] is p[1]) for q in out)]
        h.ensure("filter_distance-keeps-exactly-the-close-pairs", AND(*[IFF(i in kept_idx, keep[i]) for i in range(n)]))
        h.ensure("filter_distance-keeps-order-and-returns-tuple", isinstance(out, tuple) and kept_idx == sorted(kept_idx) and len(out) == len(kept_idx))
        out2 = Intersection.filter_parameters(pairs, 1e-6)
        kept2 = [i for i, p in enumerate(pairs) if any(q[0] is p[0] and q[1] is p[1] for q in out2)]
        tol2 = Fraction(1e-6 ** 2)  # the code squares the float bound: use the same float
        close = lambda i, j: (us[i] - us[j]) * (us[i] - us[j]) + (vs[i] - vs[j]) * (vs[i] - vs[j]) < tol2
        cs = []
        for i in range(n):
            earlier_kept = [j for j in kept2 if j < i]
            cs.append(IFF(i in kept2, NOT(OR(*[close(i, j) for j in earlier_kept])) if earlier_kept else True))
        h.ensure("filter_parameters-first-occurrence-wins", AND(*cs))
        h.ensure("filter_parameters-keeps-order", kept2 == sorted(kept2) and len(out2) == len(kept2))
        h.ensure("inputs-not-modified", len(pairs) == n)


_mk_filters(2)
