"""Shared helpers of the property files: building symbolic/concrete inputs for the real classes,
ghost `view`, `wf`, heap reachability (DESIGN 3)."""
from __future__ import annotations

from fractions import Fraction

import shapepy
from shapepy.curve import BezierCurve, PlanarCurve
from shapepy.jordancurve import JordanCurve
from shapepy.polygon import Box, Point2D
from shapepy.shape import (BaseShape, ConnectedShape, DefinedShape, DisjointShape, EmptyShape, SimpleShape,
                           WholeShape)

from ..harness import AND, EQ, IMPLIES, NOT, OR
from ..symx import Sym, SymBool

MUTABLE = (Point2D, BezierCurve, PlanarCurve, JordanCurve, DefinedShape, Box)


def xy(p):
    """value of a Point2D (or pair) as a tuple"""
    return (p[0], p[1])


def seg_ctrl(seg):
    return [xy(p) for p in seg.ctrlpoints]


def view(jordan):
    """ghost view(J): control-point values per segment (tuple of tuples of pairs)"""
    return tuple(tuple(xy(p) for p in seg.ctrlpoints) for seg in jordan.segments)


def sharing(jordan):
    """identity pattern of the control-point objects: tuple of tuples of small ints"""
    ids = {}
    out = []
    for seg in jordan.segments:
        out.append(tuple(ids.setdefault(id(p), len(ids)) for p in seg.ctrlpoints))
    return tuple(out)


def wf_structure(jordan):
    """structural part of wf(J): consecutive segments share their junction object (identity),
    including the wrap-around.  Concrete bool (structure is concrete)."""
    segs = jordan.segments
    n = len(segs)
    if n == 0:
        return False
    for i in range(n):
        if segs[i].ctrlpoints[-1] is not segs[(i + 1) % n].ctrlpoints[0]:
            return False
    return True


def view_eq(v1, v2):
    if len(v1) != len(v2):
        return False
    cs = []
    for s1, s2 in zip(v1, v2):
        if len(s1) != len(s2):
            return False
        for p, q in zip(s1, s2):
            cs.append(EQ(p[0], q[0]))
            cs.append(EQ(p[1], q[1]))
    return AND(*cs)


def shape_view(shape):
    if isinstance(shape, (EmptyShape, WholeShape)):
        return type(shape).__name__
    return tuple(view(j) for j in shape.jordans)


def shape_view_eq(v1, v2):
    if isinstance(v1, str) or isinstance(v2, str):
        return v1 == v2
    if len(v1) != len(v2):
        return False
    return AND(*[view_eq(a, b) for a, b in zip(v1, v2)])


def reach(*roots):
    """all mutable shapepy objects reachable from roots (generic __dict__/container traversal).
    Returns {id: obj}."""
    seen = {}
    stack = list(roots)
    while stack:
        o = stack.pop()
        if isinstance(o, (tuple, list, set, frozenset)):
            stack.extend(o)
            continue
        if isinstance(o, dict):
            stack.extend(o.values())
            continue
        if isinstance(o, (EmptyShape, WholeShape)):
            continue
        if not isinstance(o, MUTABLE):
            continue
        if id(o) in seen:
            continue
        seen[id(o)] = o
        d = getattr(o, "__dict__", None)
        if d:
            stack.extend(d.values())
    return seen


def disjoint_heaps(a_roots, b_roots):
    ra = reach(*a_roots)
    rb = reach(*b_roots)
    return not (set(ra) & set(rb))


def snapshot(*roots):
    """{id: (obj, {field: value})} for every reachable mutable object; values of numeric fields are
    kept as they are (Sym terms are immutable), containers are copied shallowly."""
    snap = {}
    for i, o in reach(*roots).items():
        fields = {}
        for k, v in getattr(o, "__dict__", {}).items():
            fields[k] = tuple(v) if isinstance(v, (list, tuple)) else v
        snap[i] = (o, fields)
    return snap


def _same(a, b):
    from .. import symx

    if symx.mode_of(a) is not None and symx.mode_of(b) is not None:
        return EQ(a, b)
    if isinstance(a, tuple) and isinstance(b, tuple):
        if len(a) != len(b):
            return False
        return AND(*[_same(x, y) for x, y in zip(a, b)]) if a else True
    return a is b or (a is None and b is None)


def frame_unchanged(snap, except_fields=()):
    """every field of every pre-existing object is unchanged (identity for references, value for
    numbers) -- the frame condition."""
    cs = []
    for i, (o, fields) in snap.items():
        now = getattr(o, "__dict__", {})
        for k, v in fields.items():
            if (type(o).__name__, k) in except_fields or k in except_fields:
                continue
            cur = now.get(k)
            cur = tuple(cur) if isinstance(cur, (list, tuple)) else cur
            cs.append(_same(v, cur))
    return AND(*cs) if cs else True


def mk_points(h, prefix, n, mode="Q"):
    return [h.point(f"{prefix}{i}", mode) for i in range(n)]


def mk_segment(h, prefix, degree, mode="Q"):
    ctrl = mk_points(h, prefix, degree + 1, mode)
    return PlanarCurve(ctrl), ctrl


def mk_jordan_ctrl(h, prefix, degrees, mode="Q"):
    """closed chain description with shared junction values: list of control-point lists"""
    n = len(degrees)
    starts = [h.point(f"{prefix}v{i}", mode) for i in range(n)]
    allc = []
    for i, d in enumerate(degrees):
        inner = [h.point(f"{prefix}c{i}_{k}", mode) for k in range(1, d)]
        allc.append([starts[i]] + inner + [starts[(i + 1) % n]])
    return allc


def distinct(p, q):
    return OR(NOT(EQ(p[0], q[0])), NOT(EQ(p[1], q[1])))


def far_apart(p, q, gap=Fraction(1, 10**6)):
    return OR(abs(p[0] - q[0]) > gap, abs(p[1] - q[1]) > gap)


def nonreducible(ctrl):
    """precondition for curved segments: the least-squares degree reduction error exceeds the
    library tolerance, so `clean()` keeps the degree.  Uses the library's own (pynurbs, trusted)
    error matrix -- it is a *precondition*, not part of what is proved."""
    from shapepy.curve import Operations

    d = len(ctrl) - 1
    if d < 2:
        return True
    _, E = Operations.degree_decrease(d, 1)
    err = 0
    for i in range(d + 1):
        for j in range(d + 1):
            err = err + E[i][j] * (ctrl[i][0] * ctrl[j][0] + ctrl[i][1] * ctrl[j][1])
    return err > Fraction(1, 10**6)


def kinds():
    return ["Empty", "Whole", "Simple", "Connected", "Disjoint"]
