"""Layer L2 contracts: jordancurve.py (JordanCurve).  Serves C06, C08, C09, C10, C15, C17 (and C13 for exactness)."""
from __future__ import annotations

import copy as _copy
from fractions import Fraction

import z3

import shapepy.jordancurve as J
import shapepy.polygon as P
from shapepy.curve import IntegratePlanar, PlanarCurve
from shapepy.jordancurve import IntegrateJordan, JordanCurve
from shapepy.polygon import Box, Point2D

from .. import spec
from ..harness import AND, EQ, IFF, IMPLIES, NOT, OR, PreconditionNotMet, bounded, is_wellformed_fraction, proof
from ..symx import Engine, Sym, sym_max, sym_min
from .common import (disjoint_heaps, frame_unchanged, mk_jordan_ctrl, nonreducible, reach, seg_ctrl, sharing, snapshot,
                     view, view_eq, wf_structure, xy)

STRUCTS_Q = [(1, 1, 1), (1, 1, 1, 1)]
STRUCTS_F = [(1, 2), (2, 2), (1, 2, 3), (2, 1, 1)]
STRUCTS_T = [(1, 1, 1, 1, 1), (1, 1, 1, 1, 1, 1), (3, 3), (2, 1, 3, 1)]


def sname(degs):
    return "".join(map(str, degs))


def build(h, degs, mode=None, prefix=""):
    mode = mode or ("Q" if all(d == 1 for d in degs) else "F")
    allc = mk_jordan_ctrl(h, prefix, degs, mode)
    for c in allc:
        h.assume(nonreducible(c))
    return JordanCurve.from_ctrlpoints(allc), allc, mode


def flat(allc):
    return [p for c in allc for p in c]


def expected_sharing(degs):
    """identity pattern of a well formed curve: junctions shared, interior points private, wrap-around glued"""
    n = len(degs)
    ids = {}
    out = []
    cnt = 0
    start_ids = []
    for i in range(n):
        start_ids.append(None)
    pat = []
    nxt = 0
    first = nxt
    cur_start = nxt
    nxt += 1
    for i, d in enumerate(degs):
        row = [cur_start]
        for _ in range(d - 1):
            row.append(nxt)
            nxt += 1
        if i == n - 1:
            row.append(first)
        else:
            row.append(nxt)
            cur_start = nxt
            nxt += 1
        pat.append(tuple(row))
    return tuple(pat)


def all_structs(tier):
    return STRUCTS_Q + STRUCTS_F + (STRUCTS_T if tier != "quick" else [])


# ------------------------------------------------------------------ C17 constructors

def _mk_ctor(degs, tier):
    @proof(f"C17.constructors[{sname(degs)}]", "C17", tier=tier, props=["C17", "C06", "C13"],
           funcs=["jordancurve.JordanCurve.from_ctrlpoints", "jordancurve.JordanCurve.from_segments", "jordancurve.JordanCurve.from_vertices",
                  "jordancurve.JordanCurve.__init__", "jordancurve.JordanCurve.segments", "jordancurve.JordanCurve.vertices", "jordancurve.JordanCurve.box",
                  "jordancurve.JordanCurve.points", "curve.PlanarCurve.__init__", "curve.PlanarCurve.clean", "curve.BezierCurve.clean"])
    def _(h):
        j1, allc, mode = build(h, degs)
        want = tuple(tuple(c) for c in allc)
        j2 = JordanCurve.from_segments([PlanarCurve(c) for c in allc])
        cs = [("from_ctrlpoints", j1), ("from_segments", j2)]
        if all(d == 1 for d in degs):
            cs.append(("from_vertices", JordanCurve.from_vertices([c[0] for c in allc])))
        exp_share = expected_sharing(degs)
        nverts = sum(degs)
        allx = [p[0] for p in flat(allc)]
        ally = [p[1] for p in flat(allc)]
        for name, j in cs:
            h.ensure(f"{name}-view-is-description", view_eq(view(j), want))
            h.ensure(f"{name}-well-formed", wf_structure(j) and sharing(j) == exp_share)
            vs = j.vertices
            order = [c[k] for c in allc for k in range(len(c) - 1)]
            h.ensure(f"{name}-vertices-each-control-point-once-in-order", AND(len(vs) == nverts, *[AND(EQ(v[0], o[0]), EQ(v[1], o[1])) for v, o in zip(vs, order)]))
            h.ensure(f"{name}-vertices-are-the-segment-objects", all(any(v is p for s in j.segments for p in s.ctrlpoints) for v in vs))
            b = j.box()
            if h.sym:
                lo = (sym_min(allx), sym_min(ally))
                hi = (sym_max(allx), sym_max(ally))
            else:
                lo = (min(allx), min(ally))
                hi = (max(allx), max(ally))
            h.ensure(f"{name}-box-is-minmax-of-control-points", AND(EQ(b.lowpt[0], lo[0]), EQ(b.lowpt[1], lo[1]), EQ(b.toppt[0], hi[0]), EQ(b.toppt[1], hi[1])), free=True)
            h.ensure(f"{name}-segment-degrees", tuple(s.degree for s in j.segments) == tuple(degs))
            if mode == "Q":
                h.ensure(f"{name}-exact-type", AND(*[AND(is_wellformed_fraction(p[0]), is_wellformed_fraction(p[1])) for v in view(j) for p in v]))
        pts = j1.points(1)
        wantpts = []
        for c in allc:
            wantpts.append(c[0])
            wantpts.append(spec.bezier_eval(c, Fraction(1, 2)))
        wantpts.append(allc[0][0])
        h.ensure("points-are-eval-at-documented-parameters-and-closed", AND(len(pts) == len(wantpts), *[AND(EQ(p[0], w[0]), EQ(p[1], w[1])) for p, w in zip(pts, wantpts)]))
        pts0 = j1.points(0)
        h.ensure("points0-are-segment-starts-closed", AND(len(pts0) == len(degs) + 1, *[AND(EQ(p[0], c[0][0]), EQ(p[1], c[0][1])) for p, c in zip(pts0, allc + [allc[0]])]))


def _mk_reject(n, gap_at, tier):
    @proof(f"C17.reject-open-chain[n={n},gap={gap_at}]", "C17", tier=tier, props=["C17", "C06"],
           funcs=["jordancurve.JordanCurve.from_segments", "jordancurve.JordanCurve.from_ctrlpoints", "jordancurve.JordanCurve.segments"])
    def _(h):
        """segments whose consecutive end points are *independent* values: the chain is accepted iff
        every junction (including the wrap-around) agrees within the point tolerance 1e-9."""
        mode = "F"
        starts = [h.point(f"s{i}", mode) for i in range(n)]
        ends = [h.point(f"e{i}", mode) for i in range(n)]
        tol = Fraction(1e-9)
        # all junctions exact except the one under test
        for i in range(n):
            if i != gap_at:
                h.assume(AND(EQ(ends[i][0], starts[(i + 1) % n][0]), EQ(ends[i][1], starts[(i + 1) % n][1])))
        allc = [[starts[i], ends[i]] for i in range(n)]
        e_, s_ = ends[gap_at], starts[(gap_at + 1) % n]
        closed = AND(abs(e_[0] - s_[0]) <= tol, abs(e_[1] - s_[1]) <= tol)
        for name, fn in (("from_ctrlpoints", lambda: JordanCurve.from_ctrlpoints(allc)),
                         ("from_segments", lambda: JordanCurve.from_segments([PlanarCurve(c) for c in allc]))):
            j, e = h.call(fn)
            h.ensure(f"{name}-accepts-iff-closed", IFF(e is None, closed))
            if e is not None:
                h.ensure(f"{name}-rejects-with-exception", isinstance(e, (AssertionError, ValueError)))
            else:
                h.ensure(f"{name}-result-well-formed", wf_structure(j))
        # the raw constructor on segments that do not share their junction objects must not produce a curve
        segs = [PlanarCurve(c) for c in allc]
        j, e = h.call(JordanCurve, segs)
        h.ensure("raw-constructor-requires-shared-junction-objects", e is not None or n == 1)


@proof("C17.reject-non-curve", "C17", funcs=["jordancurve.JordanCurve.segments", "jordancurve.JordanCurve.from_vertices", "jordancurve.JordanCurve.from_ctrlpoints"])
def _reject_noncurve(h):
    for bad in (["a", "b"], [1, 2, 3], [None], [(0, 0), (1, 1)]):
        _, e = h.call(JordanCurve, bad)
        h.ensure("non-curve-segments-rejected", isinstance(e, (TypeError, AttributeError, AssertionError)) and e is not None)
    _, e = h.call(JordanCurve.from_vertices, "abc")
    h.ensure("from_vertices-str-rejected", isinstance(e, TypeError))
    _, e = h.call(JordanCurve.from_ctrlpoints, "abc")
    h.ensure("from_ctrlpoints-str-rejected", isinstance(e, TypeError))
    _, e = h.call(JordanCurve.from_vertices, [(0, 0), "ab", (1, 1)])
    h.ensure("from_vertices-bad-point-rejected", e is not None)


# ------------------------------------------------------------------ C09 transformations, C06 wf, C10 cache

def _trig(h, ang):
    if h.sym:
        return P.np.cos(ang), P.np.sin(ang)
    import numpy as np

    return np.cos(ang), np.sin(ang)


def _mk_transform(degs, tier):
    @proof(f"C09.curve[{sname(degs)}]", "C09", tier=tier, props=["C09", "C06", "C13", "C08"],
           funcs=["jordancurve.JordanCurve.move", "jordancurve.JordanCurve.scale", "jordancurve.JordanCurve.rotate", "jordancurve.JordanCurve.vertices",
                  "polygon.Point2D.move", "polygon.Point2D.scale", "polygon.Point2D.rotate"])
    def _(h):
        j, allc, mode = build(h, degs)
        dx, dy, sx, sy = h.reals("dx dy sx sy", mode)
        ang = h.real("ang", "F")
        share0 = sharing(j)
        objs0 = [id(p) for s in j.segments for p in s.ctrlpoints]

        def check(name, r, kind, params):
            want = tuple(tuple(spec.affine(kind, params, p) for p in c) for c in allc_cur[0])
            h.ensure(f"{name}-returns-self", r is j)
            h.ensure(f"{name}-every-control-point-transformed-exactly-once", view_eq(view(j), want))
            h.ensure(f"{name}-keeps-structure", wf_structure(j) and sharing(j) == share0 and [id(p) for s in j.segments for p in s.ctrlpoints] == objs0)
            allc_cur[0] = [list(c) for c in want]

        allc_cur = [allc]
        check("move", j.move(dx, dy), "move", (dx, dy))
        check("move-pair", j.move((dx, dy)), "move", (dx, dy))
        if mode == "Q":
            h.ensure("move-exact-type", AND(*[AND(is_wellformed_fraction(p[0]), is_wellformed_fraction(p[1])) for v in view(j) for p in v]))
        check("scale", j.scale(sx, sy), "scale", (sx, sy))
        if mode == "Q":
            h.ensure("scale-exact-type", AND(*[AND(is_wellformed_fraction(p[0]), is_wellformed_fraction(p[1])) for v in view(j) for p in v]))
        c, s = _trig(h, ang)
        check("rotate", j.rotate(ang), "rotate", (c, s))
        # degrees=True multiplies by pi/180 first
        import numpy as np

        angd = h.real("angd", "F")
        rad = angd * (np.pi / 180)
        c2, s2 = _trig(h, rad)
        check("rotate-degrees", j.rotate(angd, degrees=True), "rotate", (c2, s2))


def _mk_inverse(degs, tier):
    @proof(f"C09.inverse[{sname(degs)}]", "C09", tier=tier, props=["C09"],
           funcs=["jordancurve.JordanCurve.move", "jordancurve.JordanCurve.scale", "jordancurve.JordanCurve.rotate"])
    def _(h):
        j, allc, mode = build(h, degs)
        dx, dy, sx, sy = h.reals("dx dy sx sy", mode)
        h.assume(AND(sx > 0, sy > 0))
        want = tuple(tuple(c) for c in allc)
        j.move(dx, dy)
        j.move(-dx, -dy)
        h.ensure("move-then-inverse-restores-exactly", view_eq(view(j), want))
        j.scale(sx, sy)
        j.scale(1 / sx, 1 / sy)
        h.ensure("scale-then-inverse-restores-exactly", view_eq(view(j), want))
        ang = h.real("ang", "F")
        j.rotate(ang)
        if h.sym:
            # cos(-a) = cos a, sin(-a) = -sin a (A4)
            eng = Engine.cur
            c, s = P.np.cos(ang), P.np.sin(ang)
            cm, sm = P.np.cos(-ang), P.np.sin(-ang)
            eng.assume(z3.And(cm.t == c.t, sm.t == -s.t))
        j.rotate(-ang)
        h.ensure("rotate-then-inverse-restores", view_eq(view(j), want))


def _mk_measure(degs, tier):
    @proof(f"C09.measure[{sname(degs)}]", "C09", tier=tier, props=["C09", "C12"],
           funcs=["jordancurve.JordanCurve.move", "jordancurve.JordanCurve.scale", "jordancurve.JordanCurve.rotate", "jordancurve.IntegrateJordan.vertical"])
    def _(h):
        """area(T J) = det(T) * area(J) through the real integrator, before/after the real transformation."""
        j, allc, mode = build(h, degs)
        dx, dy, sx, sy = h.reals("dx dy sx sy", mode)
        a0 = IntegrateJordan.vertical(j, 1, 0)
        j.move(dx, dy)
        h.ensure("translation-keeps-area", EQ(IntegrateJordan.vertical(j, 1, 0), a0))
        j.scale(sx, sy)
        h.ensure("scale-multiplies-area-by-sx*sy", EQ(IntegrateJordan.vertical(j, 1, 0), a0 * sx * sy))
        if h.sym and len(degs) > 3:
            return
        a1 = IntegrateJordan.vertical(j, 1, 0)
        ang = h.real("ang", "F")
        j.rotate(ang)
        a2 = IntegrateJordan.vertical(j, 1, 0)
        if h.sym:
            from ..certificates import prove_mod_circle

            c, s = P.np.cos(ang), P.np.sin(ang)
            ok, how = prove_mod_circle(a2.t - a1.t, c.t, s.t)
            h.ensure("rotation-keeps-area", ok)
            h.note("rotation obligations use a sympy cofactor certificate, checked by z3: " + how)
        else:
            h.ensure("rotation-keeps-area", EQ(a2, a1, tol=1e-7))


def _mk_invert(degs, tier):
    @proof(f"C06.invert[{sname(degs)}]", "C06", tier=tier, props=["C06", "C05", "C08"],
           funcs=["jordancurve.JordanCurve.invert", "jordancurve.JordanCurve.__invert__", "curve.PlanarCurve.invert"])
    def _(h):
        j, allc, mode = build(h, degs)
        want = tuple(tuple(c[::-1]) for c in allc[::-1])
        a0 = IntegrateJordan.vertical(j, 1, 0)
        k = ~j
        h.ensure("tilde-is-fresh-reversed-copy", AND(k is not j, view_eq(view(k), want), wf_structure(k), disjoint_heaps([k], [j])))
        h.ensure("tilde-leaves-operand", view_eq(view(j), tuple(tuple(c) for c in allc)))
        r = j.invert()
        h.ensure("invert-returns-self", r is j)
        h.ensure("invert-reverses-segments-and-control-points", view_eq(view(j), want))
        h.ensure("invert-keeps-well-formedness", wf_structure(j))
        h.ensure("invert-negates-area", EQ(IntegrateJordan.vertical(j, 1, 0), -a0))
        j.invert()
        h.ensure("invert-twice-restores", view_eq(view(j), tuple(tuple(c) for c in allc)))


def _mk_deepcopy(degs, tier):
    @proof(f"C08.deepcopy-curve[{sname(degs)}]", "C08", tier=tier, props=["C08", "C06"],
           funcs=["jordancurve.JordanCurve.__deepcopy__", "jordancurve.JordanCurve.__copy__", "curve.PlanarCurve.__deepcopy__", "curve.PlanarCurve.__copy__"])
    def _(h):
        j, allc, mode = build(h, degs)
        want = tuple(tuple(c) for c in allc)
        snap = snapshot(j)
        for name, fn in (("copy", _copy.copy), ("deepcopy", _copy.deepcopy)):
            k = fn(j)
            h.ensure(f"{name}-same-view", view_eq(view(k), want))
            h.ensure(f"{name}-keeps-junction-sharing-inside-the-copy", wf_structure(k) and sharing(k) == sharing(j))
            h.ensure(f"{name}-shares-no-mutable-object", disjoint_heaps([k], [j]))
            h.ensure(f"{name}-original-untouched", frame_unchanged(snap))
            dx, dy = h.reals("dx dy", mode)
            k.move(dx, dy)
            k.invert()
            h.ensure(f"{name}-mutating-copy-leaves-original", view_eq(view(j), want))
        seg = j.segments[0]
        sc = _copy.copy(seg)
        h.ensure("segment-copy-fresh", AND(sc is not seg, disjoint_heaps([sc], [seg]), view_eq((tuple(seg_ctrl(sc)),), (tuple(seg_ctrl(seg)),))))


# ------------------------------------------------------------------ C10 cache coherence

def _LA(n):
    L = z3.Function(f"LEN{n}", *([z3.RealSort()] * n), z3.RealSort())
    A = z3.Function(f"AREA{n}", *([z3.RealSort()] * n), z3.RealSort())
    return L, A


def _mk_cache(degs, op, tier):
    @proof(f"C10.cache[{sname(degs)},{op}]", "C10", tier=tier, props=["C10"],
           funcs=["jordancurve.JordanCurve.__float__", "jordancurve.JordanCurve.segments", f"jordancurve.JordanCurve.{op}"])
    def _(h):
        """cache_ok(J): after the operation, float(J) equals what a fresh deep copy answers.  Symbolic side:
        length/area are uninterpreted functions of the current view (stubs of IntegrateJordan.lenght/area);
        concrete side: the real integrators."""
        j, allc, mode = build(h, degs)
        def coords(jj):
            from ..symx import lift

            return [lift(x) for s in jj.segments for p in s.ctrlpoints for x in (p[0], p[1])]

        def stub_len(jj, nnodes=None):
            cs = coords(jj)
            return Sym(_LA(len(cs))[0](*cs), "F")

        def stub_area(jj, nnodes=None):
            cs = coords(jj)
            return Sym(_LA(len(cs))[1](*cs), "F")

        fl = J.float if h.sym else float
        with h.stubs({(IntegrateJordan, "lenght"): staticmethod(stub_len), (IntegrateJordan, "area"): staticmethod(stub_area)}):
            f0 = fl(j)  # warm the cache
            f0b = fl(j)
            h.ensure("asking-twice-same-answer", EQ(f0, f0b))
            h.ensure("query-does-not-change-view", view_eq(view(j), tuple(tuple(c) for c in allc)))
            sx, sy, dx, dy = h.reals("sx sy dx dy", mode)
            if op == "scale":
                # the scaled curve stays a non-degenerate region as well (a nearly flat curved segment is degree-reduced
                # by the deep copy's constructor: that is the library's documented 1e-9 licence, not a stale answer)
                h.assume(AND(abs(sx) >= Fraction(1, 4), abs(sy) >= Fraction(1, 4), abs(sx) <= 4, abs(sy) <= 4))
                j.scale(sx, sy)
            elif op == "move":
                j.move(dx, dy)
            elif op == "rotate":
                j.rotate(h.real("ang", "F"))
            elif op == "invert":
                j.invert()
            elif op == "split":
                j.split([0], [Fraction(1, 2)])
            elif op == "clean":
                j.clean()
            live = fl(j)
            if h.sym and op == "move":
                # translation invariance of length and area is a property of the integrals (C09.measure), stated
                # here for the uninterpreted LEN/AREA: the cache may legitimately survive a translation.
                old = [c for c in coords(_copy.deepcopy(j))]
                L, A = _LA(len(old))
                Engine.cur.assume(z3.And(L(*old) == L(*[x for c in allc for p in c for x in (p[0].t, p[1].t)]),
                                         A(*old) == A(*[x for c in allc for p in c for x in (p[0].t, p[1].t)])))
            fresh = fl(_copy.deepcopy(j))
            h.ensure("live-object-answers-like-fresh-deep-copy", EQ(live, fresh, tol=1e-9))


@proof("C10.float-definition", "C10", funcs=["jordancurve.JordanCurve.__float__"], props=["C10", "C17"], abstract=True)
def _float_def(h):
    """float(J) = length * sign(area) (modular over IntegrateJordan.lenght/area), cached after the first call."""
    if not h.sym:
        return
    eng = Engine.cur
    j = JordanCurve.from_vertices([(0, 0), (1, 0), (0, 1)])
    ln = eng.fresh_real("len", "F")
    ar = eng.fresh_real("area", "F")
    eng.assume(ln.t > 0)
    calls = []

    def stub_len(jj, nnodes=None):
        calls.append("len")
        return ln

    def stub_area(jj, nnodes=None):
        calls.append("area")
        return ar

    with h.stubs({(IntegrateJordan, "lenght"): staticmethod(stub_len), (IntegrateJordan, "area"): staticmethod(stub_area)}):
        f = J.float(j)
        h.ensure("sign-is-orientation", AND(IMPLIES(ar > 0, EQ(f, ln)), IMPLIES(ar < 0, EQ(f, -ln))))
        n = len(calls)
        f2 = J.float(j)
        h.ensure("second-call-served-from-cache", AND(EQ(f2, f), len(calls) == n))
        j.segments = j.segments
        J.float(j)
        h.ensure("assigning-segments-resets-cache", len(calls) > n)


for _degs in STRUCTS_Q + STRUCTS_F:
    _mk_ctor(_degs, "quick")
    _mk_transform(_degs, "quick")
    _mk_invert(_degs, "quick")
    _mk_deepcopy(_degs, "quick")
for _degs in STRUCTS_T:
    _mk_ctor(_degs, "thorough")
    _mk_transform(_degs, "thorough")
    _mk_invert(_degs, "thorough")
    _mk_deepcopy(_degs, "thorough")
for _degs in [(1, 1, 1), (1, 2)]:
    _mk_inverse(_degs, "quick")
for _degs in [(1, 1, 1, 1), (1, 2, 3)]:
    _mk_inverse(_degs, "thorough")
for _degs in [(1, 1, 1), (1, 1, 1, 1), (1, 2), (2, 2)]:
    _mk_measure(_degs, "quick")
for _degs in [(1, 1, 1, 1, 1), (1, 2, 3), (2, 2, 2)]:
    _mk_measure(_degs, "thorough")
for _n, _g in ((2, 0), (2, 1), (3, 0), (3, 2)):
    _mk_reject(_n, _g, "quick")
for _op in ("move", "scale", "rotate", "invert", "split"):
    _mk_cache((1, 1, 1), _op, "quick")
    # (curved variants were dropped: the nonlinear non-reducibility / non-degeneracy preconditions make the solver give
    #  up, and the cache logic does not look at segment degrees)
    _mk_cache((1, 1, 1, 1), _op, "thorough")


@proof("C17.length-of-line", "C17", funcs=["curve.IntegratePlanar.lenght", "curve.IntegratePlanar.polynomial", "polygon.Point2D.__abs__"], props=["C17", "C10"])
def _length_line(h):
    """boundary length of a straight segment is the Euclidean distance of its end points (the open Newton-Cotes
    weights sum to one and |C'| is constant), for all end points; float(J) of a polygon is +-(sum of edge lengths)."""
    seg, ctrl = build_seg(h)
    ln = IntegratePlanar.lenght(seg)
    dx, dy = ctrl[1][0] - ctrl[0][0], ctrl[1][1] - ctrl[0][1]
    if h.sym:
        h.ensure("length-nonnegative-and-squares-to-distance", AND(ln >= 0, EQ(ln * ln, dx * dx + dy * dy)))
    else:
        h.ensure("length-nonnegative-and-squares-to-distance", abs(ln * ln - float(dx * dx + dy * dy)) <= 1e-9 * (1 + float(dx * dx + dy * dy)) and ln >= 0)


def build_seg(h):
    from .common import mk_segment

    return mk_segment(h, "p", 1, "F")
