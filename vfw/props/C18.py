"""C18 -- segment calculus is exact: evaluation, derivative, split, box, point-on-curve."""
from __future__ import annotations

from fractions import Fraction
from math import comb

from shapepy.curve import Derivate, IntegratePlanar, Math, PlanarCurve, Projection
from shapepy.polygon import Box, Point2D

from .. import spec
from ..harness import AND, EQ, IMPLIES, NOT, OR, bounded, proof
from ..symx import Engine, Sym
from .common import mk_segment, xy

DEGS_Q = range(1, 7)


def _mk_eval(d):
    @proof(f"C18.eval[d={d}]", "C18", funcs=["curve.PlanarCurve.__call__", "curve.PlanarCurve.eval",
                                              "curve.BezierCurve.eval", "curve.Math.horner_method",
                                              "curve.Math.bezier_caract_matrix", "curve.Math.comb"],
           props=["C18", "C13"])
    def _(h):
        seg, ctrl = mk_segment(h, "p", d)
        t = h.real("t")
        u = h.real("u")
        val = seg(t)
        sx, sy = spec.bezier_eval(ctrl, t)
        h.ensure("call-is-bernstein-sum", AND(EQ(val[0], sx), EQ(val[1], sy)))
        vals = seg.eval((t, u))
        h.ensure("eval-tuple-length", len(vals) == 2)
        ux, uy = spec.bezier_eval(ctrl, u)
        h.ensure("eval-is-bernstein-sum", AND(EQ(vals[0][0], sx), EQ(vals[0][1], sy), EQ(vals[1][0], ux), EQ(vals[1][1], uy)))
        h.ensure("exact-type", AND(_exact(val[0]), _exact(val[1])))
        h.ensure("degree-npts", seg.degree == d and seg.npts == d + 1)
        # end point interpolation (consequence, but pins the orientation of the matrix)
        e0, e1 = seg(0), seg(1)
        h.ensure("endpoints", AND(EQ(e0[0], ctrl[0][0]), EQ(e0[1], ctrl[0][1]), EQ(e1[0], ctrl[-1][0]), EQ(e1[1], ctrl[-1][1])))


def _exact(x):
    from ..harness import is_exact, is_wellformed_fraction

    return is_wellformed_fraction(x)


def _mk_derivate(d, k):
    @proof(f"C18.derivate[d={d},k={k}]", "C18", funcs=["curve.PlanarCurve.derivate", "curve.Derivate.non_rational_bezier",
                                                      "curve.Derivate.non_rational_bezier_once"])
    def _(h):
        h.trust("pynurbs.heavy.Calculus.derivate_nonrational_bezier (matrix content; its effect is checked by this obligation)")
        seg, ctrl = mk_segment(h, "p", d)
        t = h.real("t")
        dseg = seg.derivate(k)
        val = dseg(t)
        px, py = spec.bezier_xy(ctrl)
        for _ in range(k):
            px, py = spec.pderiv(px), spec.pderiv(py)
        h.ensure("is-kth-derivative", AND(EQ(val[0], spec.peval(px, t)), EQ(val[1], spec.peval(py, t))))
        h.ensure("operand-unchanged", AND(*[AND(EQ(p[0], c[0]), EQ(p[1], c[1])) for p, c in zip(seg.ctrlpoints, ctrl)]))
        h.ensure("fresh-result", dseg is not seg)


@proof("C18.memo-matrices", "C18", funcs=["curve.Math.bezier_caract_matrix", "curve.Derivate.non_rational_bezier_once",
                                          "curve.Math.comb", "curve.Math.closed_linspace", "curve.Math.open_linspace"],
       props=["C18", "C10"])
def _memo(h):
    """finite, exhaustive over degrees 0..8: memoised value == cold recomputation == definition;
    memo entries are immutable tuples (no caller can write into them)."""
    import shapepy.curve as C

    for d in range(0, 9):
        warm1 = Math.bezier_caract_matrix(d)
        # definition: coefficient of t^(d-j) in B_{i,d}(t)
        for i in range(d + 1):
            basis = spec.pscale(spec.pmul(spec.ppow([0, 1], i), spec.ppow([1, -1], d - i)), comb(d, i))
            basis = basis + [0] * (d + 1 - len(basis))
            h.ensure("caract-matrix-definition", all(warm1[i][j] == basis[d - j] for j in range(d + 1)))
        cache = C.Math.__dict__["_Math__caract_matrix"]
        saved = dict(cache)
        cache.clear()
        cold = Math.bezier_caract_matrix(d)
        cache.clear()
        cache.update(saved)
        h.ensure("warm-equals-cold", cold == warm1 and Math.bezier_caract_matrix(d) is warm1)
        h.ensure("memo-immutable", isinstance(warm1, tuple) and all(isinstance(r, tuple) for r in warm1))
        for n in range(0, d + 1):
            h.ensure("comb", Math.comb(d, n) == comb(d, n))
    for d in range(1, 8):
        m1 = Derivate.non_rational_bezier_once(d)
        cache = C.Derivate.__dict__["_Derivate__non_rat_bezier_once"]
        saved = dict(cache)
        cache.clear()
        cold = Derivate.non_rational_bezier_once(d)
        cache.clear()
        cache.update(saved)
        same = len(m1) == len(cold) and all(tuple(a) == tuple(b) for a, b in zip(m1, cold))
        h.ensure("derivative-warm-equals-cold", same and Derivate.non_rational_bezier_once(d) is m1)
        # content: Q_i = d (P_{i+1} - P_i)
        ok = all(m1[i][j] == (d if j == i + 1 else (-d if j == i else 0)) for i in range(d) for j in range(d + 1))
        h.ensure("derivative-matrix-definition", ok)
    for n in range(2, 20):
        h.ensure("closed-linspace", Math.closed_linspace(n) == tuple(Fraction(i, n - 1) for i in range(n)))
    for n in range(1, 20):
        h.ensure("open-linspace", Math.open_linspace(n) == tuple(Fraction(2 * i + 1, 2 * n) for i in range(n)))


SPLITS = {1: [(Fraction(1, 3),), (Fraction(1, 4), Fraction(2, 3))], 2: [(Fraction(2, 5),), (Fraction(1, 5), Fraction(1, 2))],
          3: [(Fraction(1, 2),), (Fraction(1, 3), Fraction(3, 4))]}


def _mk_split(d, nodes):
    @proof(f"C18.split[d={d},nodes={','.join(map(str, nodes))}]", "C18", funcs=["curve.PlanarCurve.split", "curve.BezierCurve.split"],
           props=["C18", "C15"])
    def _(h):
        h.trust("pynurbs.Curve.split (knot insertion; its effect on the control points is checked by this obligation)")
        seg, ctrl = mk_segment(h, "p", d)
        s = h.real("s")
        pieces = seg.split(nodes)
        h.ensure("piece-count", len(pieces) == len(nodes) + 1)
        ts = [Fraction(0)] + list(nodes) + [Fraction(1)]
        px, py = spec.bezier_xy(ctrl)
        cs = []
        for j, piece in enumerate(pieces):
            v = piece(s)
            tt = ts[j] + s * (ts[j + 1] - ts[j])
            cs.append(AND(EQ(v[0], spec.peval(px, tt)), EQ(v[1], spec.peval(py, tt))))
        h.ensure("reparametrisation", AND(*cs))
        h.ensure("same-degree", all(p.degree == d for p in pieces))
        h.ensure("operand-unchanged", AND(*[AND(EQ(p[0], c[0]), EQ(p[1], c[1])) for p, c in zip(seg.ctrlpoints, ctrl)]))


def _mk_split_sym(d):
    @proof(f"C18.split-symbolic-node[d={d}]", "C18", funcs=["curve.PlanarCurve.split"], props=["C18", "C15"], tier="quick")
    def _(h):
        """symbolic node: pynurbs hashes nodes (A7) => the dependency pynurbs.Curve.split is replaced by
        its contract (de Casteljau control points); the agreement of real pynurbs with that contract
        is checked by the bounded obligation C18.rc-pynurbs-split."""
        import pynurbs

        h.assumed_contract("pynurbs.Curve.split(nodes) returns the de Casteljau control polygons (bounded: C18.rc-pynurbs-split)")
        seg, ctrl = mk_segment(h, "p", d)
        t1 = h.real("t1")
        s = h.real("s")
        h.assume(AND(t1 > 0, t1 < 1))

        class _B:
            def __init__(self, c):
                self.ctrlpoints = c

        def stub_split(self_curve, nodes=None):
            pts = [xy(p) for p in self_curve.ctrlpoints]
            left, right = spec.de_casteljau_split(pts, nodes[0])
            return (_B([Point2D(*p) for p in left]), _B([Point2D(*p) for p in right]))

        with h.stubs({(pynurbs.Curve, "split"): stub_split}):
            pieces = seg.split((t1,))
        h.ensure("piece-count", len(pieces) == 2)
        px, py = spec.bezier_xy(ctrl)
        a = pieces[0](s)
        b = pieces[1](s)
        ta = s * t1
        tb = t1 + s * (1 - t1)
        h.ensure("reparametrisation", AND(EQ(a[0], spec.peval(px, ta)), EQ(a[1], spec.peval(py, ta)),
                                          EQ(b[0], spec.peval(px, tb)), EQ(b[1], spec.peval(py, tb))))


def _mk_hull(d, tier):
    @proof(f"C18.hull[d={d}]", "C18", funcs=["curve.PlanarCurve.box", "polygon.Box.__contains__"], tier=tier,
           props=["C18", "C17", "C02"])
    def _(h):
        seg, ctrl = mk_segment(h, "p", d, mode="F")
        t = h.real("t", "F")
        h.assume(AND(t >= 0, t <= 1))
        box = seg.box()
        lo, hi = xy(box.lowpt), xy(box.toppt)
        v = seg(t)
        if d > 2:
            # lemma steps (assert-then-assume), each an obligation of its own: Bernstein weights are
            # non-negative on [0,1], sum to one, eval is their convex combination of the control points,
            # every control point is inside the box, each product w_i*(c_i-lo) is non-negative.
            # (linear fact first: nonlinear hypotheses slow the solver down on it)
            h.step("box-bounds-control-points", AND(*[AND(lo[0] <= c[0], c[0] <= hi[0], lo[1] <= c[1], c[1] <= hi[1]) for c in ctrl]))
            ws = [comb(d, i) * t ** i * (1 - t) ** (d - i) for i in range(d + 1)]
            for i, w in enumerate(ws):
                h.step("weights-nonneg", w >= 0)
            tot = 0
            sx = 0
            sy = 0
            for w, c in zip(ws, ctrl):
                tot = tot + w
                sx = sx + w * c[0]
                sy = sy + w * c[1]
            h.step("partition-of-unity", EQ(tot, 1))
            h.step("eval-is-convex-combination", AND(EQ(v[0], sx), EQ(v[1], sy)))
            for w, c in zip(ws, ctrl):
                h.step("product-nonneg", AND(w * (c[0] - lo[0]) >= 0, w * (hi[0] - c[0]) >= 0,
                                             w * (c[1] - lo[1]) >= 0, w * (hi[1] - c[1]) >= 0))
        h.ensure("box-encloses-curve", AND(lo[0] <= v[0], v[0] <= hi[0], lo[1] <= v[1], v[1] <= hi[1]))
        h.ensure("point-of-segment-not-rejected", Point2D(v[0], v[1]) in box)


@proof("C18.box-reject", "C18", funcs=["curve.PlanarCurve.__contains__", "polygon.Box.__contains__"], props=["C18", "C02"])
def _box_reject(h):
    """a point outside the 1e-6-inflated control box is never `in` the segment, and Box.__contains__
    is exactly the inflated-rectangle test."""
    for d in (1, 2, 3):
        seg, ctrl = mk_segment(h, f"p{d}_", d, mode="F")
        p = h.point("q", "F")
        xs = [c[0] for c in ctrl]
        ys = [c[1] for c in ctrl]
        tol = Fraction(1e-6)
        outside = OR(*[AND(*[p[0] < x - tol for x in xs])], AND(*[p[0] > x + tol for x in xs]),
                     AND(*[p[1] < y - tol for y in ys]), AND(*[p[1] > y + tol for y in ys]))
        called = []

        def stub_proj(point, curve):
            called.append(1)
            return (Fraction(0),)

        with h.stubs({(Projection, "point_on_curve"): staticmethod(stub_proj)}):
            if h.sym:
                h.assume(outside)
                res = Point2D(*p) in seg
                h.ensure("outside-box-is-false", res is False)
                h.ensure("no-projection-needed", not called)
            else:
                if not outside:
                    from ..harness import PreconditionNotMet

                    raise PreconditionNotMet("not outside")
                h.ensure("outside-box-is-false", (Point2D(*p) in seg) is False)


def _mk_contains_sound(d, k, converse=False):
    @proof(f"C18.contains-{'converse' if converse else 'sound'}[d={d},k={k}]", "C18", funcs=["curve.PlanarCurve.__contains__"], props=["C18", "C02"], abstract=True,
           tier="thorough" if (converse or k > 1) else "quick")
    def _contains_sound(h):
        """modular over Projection.point_on_curve (contract: a tuple of k parameters in [0,1]):
        `p in seg` is True only if some returned parameter t has |C(t) - p| < 1e-6."""
        h.assumed_contract("Projection.point_on_curve returns parameters in [0,1] (bounded: C18.rc-projection)")
        seg, ctrl = mk_segment(h, "p", d, mode="F")
        p = h.point("q", "F")
        ts = [h.real(f"t{i}", "F") for i in range(k)]
        h.assume(AND(*[AND(t >= 0, t <= 1) for t in ts]))

        def stub_proj(point, curve, ts=ts):
            return tuple(ts)

        def stub_abs(pt):
            # contract of Point2D.__abs__ (proved: L0.point-abs): the Euclidean norm
            import z3 as _z3
            from ..symx import lift as _lift

            eng = Engine.cur
            s_ = eng.fresh_real("norm", "F")
            n_ = _lift(pt[0] * pt[0] + pt[1] * pt[1])
            eng.assume(_z3.And(s_.t >= 0, s_.t * s_.t == n_, n_ >= 0))
            return s_

        h.assumed_contract("abs(Point2D) is the Euclidean norm: s >= 0, s*s = x*x + y*y (proved: L0.point-abs)")
        with h.stubs({(Projection, "point_on_curve"): staticmethod(stub_proj), (Point2D, "__abs__"): stub_abs}):
            res = Point2D(*p) in seg
        near = []
        for t in ts:
            cx, cy = spec.bezier_eval(ctrl, t)
            d2 = (cx - p[0]) * (cx - p[0]) + (cy - p[1]) * (cy - p[1])
            near.append(d2 < Fraction(1e-6) * Fraction(1e-6))
        if converse:
            h.ensure("near-implies-true-or-outside-box", IMPLIES(OR(*near), OR(res is True, _outside_box(p, ctrl))))
        else:
            h.ensure("true-implies-near", IMPLIES(res is True, OR(*near)))


def _outside_box(p, ctrl):
    xs = [c[0] for c in ctrl]
    ys = [c[1] for c in ctrl]
    tol = Fraction(1e-6)
    return OR(AND(*[p[0] < x - tol for x in xs]), AND(*[p[0] > x + tol for x in xs]),
              AND(*[p[1] < y - tol for y in ys]), AND(*[p[1] > y + tol for y in ys]))


for _d in DEGS_Q:
    _mk_eval(_d)
for _d in DEGS_Q:
    for _k in range(1, min(_d, 3) + 2):
        _mk_derivate(_d, _k)
for _d, _lst in SPLITS.items():
    for _nodes in _lst:
        _mk_split(_d, _nodes)
for _d in (4, 5, 6):
    _mk_split(_d, (Fraction(1, 2),))
for _d in (1, 2, 3):
    _mk_split_sym(_d)
for _d in (1, 2, 3):
    for _k in (1, 2):
        _mk_contains_sound(_d, _k)
    _mk_contains_sound(_d, 1, converse=True)
for _d in (1, 2, 3):
    _mk_hull(_d, "quick")
for _d in (4, 5, 6):
    _mk_hull(_d, "quick")


def _mk_winding_norm(d):
    @proof(f"C18.winding-normalisation[d={d}]", "C18", funcs=["curve.IntegratePlanar.winding_number_linear", "curve.IntegratePlanar.winding_number"], props=["C18", "C02", "C12"], abstract=True)
    def _winding_norm(h):
        """with only the *range* of atan2 modelled (angles in [-pi, pi]): the chord contribution is the angle difference
        b - a in turns, normalised into [-1/2, 1/2] by an integer correction; the contribution of a segment sampled at
        degree+1 nodes telescopes to (angle of the last point - angle of the first point) in turns plus an integer; the
        centre is used as given (only differences to the centre enter: no dependence on the origin)."""
        import math as _m

        import z3 as _z3

        from ..symx import Engine as _E
        from ..symx import lift as _lift

        if not h.sym:
            return
        h.assumed_contract("np.arctan2(y, x) is the angle of (x, y) in [-pi, pi] (range modelled, value trusted; bounded: C18.rc-kernels)")
        cx, cy = h.reals("cx cy", "F")
        eng = _E.cur
        tau = _lift(_m.tau)
        if d == 0:
            ax, ay, bx, by = h.reals("ax ay bx by", "F")
            w = IntegratePlanar.winding_number_linear(Point2D(ax, ay), Point2D(bx, by), Point2D(cx, cy))
            cache = eng.__dict__.get("_atan", {})
            h.ensure("angles-taken-relative-to-the-centre", set(cache) == {(_lift(ay - cy).sexpr(), _lift(ax - cx).sexpr()), (_lift(by - cy).sexpr(), _lift(bx - cx).sexpr())})
            A = cache[(_lift(ay - cy).sexpr(), _lift(ax - cx).sexpr())]
            B = cache[(_lift(by - cy).sexpr(), _lift(bx - cx).sexpr())]
            raw = (B.t - A.t) / tau
            h.ensure("result-within-half-a-turn", AND(w >= Fraction(-1, 2), w <= Fraction(1, 2)))
            h.ensure("result-is-angle-difference-up-to-a-whole-turn", SymBool_(_z3.Or(_lift(w) == raw, _lift(w) == raw - 1, _lift(w) == raw + 1)))
            return
        seg, ctrl = mk_segment(h, "q", d, mode="F")
        tot = IntegratePlanar.winding_number(seg, Point2D(cx, cy))
        cache = eng.__dict__.get("_atan", {})
        first, last = ctrl[0], ctrl[-1]
        A0 = cache[(_lift(first[1] - cy).sexpr(), _lift(first[0] - cx).sexpr())]
        A1 = cache[(_lift(last[1] - cy).sexpr(), _lift(last[0] - cx).sexpr())]
        diff = _lift(tot) - (A1.t - A0.t) / tau
        h.ensure("segment-contribution-telescopes-up-to-an-integer", SymBool_(_z3.Or(*[diff == k for k in range(-d, d + 1)])))


for _d in (0, 1, 2, 3):
    _mk_winding_norm(_d)


def SymBool_(t):
    from ..symx import SymBool

    return SymBool(t)
