"""C15 -- splitting and cleaning never change the curve."""
from __future__ import annotations

import copy as _copy
from fractions import Fraction

import shapepy.jordancurve as J
from shapepy.curve import PlanarCurve
from shapepy.jordancurve import IntegrateJordan, JordanCurve
from shapepy.polygon import Point2D

from .. import spec
from ..harness import AND, EQ, IFF, IMPLIES, NOT, OR, PreconditionNotMet, bounded, is_wellformed_fraction, proof
from ..symx import Engine, Sym
from .common import nonreducible, seg_ctrl, sharing, view, view_eq, wf_structure, xy
from .L2 import build, sname


def decasteljau_stub(h):
    """contract of PlanarCurve.split for symbolic nodes (pynurbs hashes nodes, A7): pieces are the iterated
    de Casteljau control polygons.  Proved equal to the reparametrisation for one node (C18.split-symbolic-node),
    and pynurbs is compared with it on concrete nodes by C18.split[...] and the bounded C15.rc-split."""
    h.assumed_contract("PlanarCurve.split(sorted nodes) returns the iterated de Casteljau pieces (C18.split*, C15.rc-split)")

    def stub(seg, nodes):
        pts = [xy(p) for p in seg.ctrlpoints]
        nodes = list(nodes)
        out = []
        prev = 0
        cur = pts
        for t in nodes:
            if bool(EQ(t, prev)):
                continue  # pynurbs de-duplicates equal nodes (set)
            local = (t - prev) / (1 - prev)
            left, cur = spec.de_casteljau_split(cur, local)
            out.append(PlanarCurve([Point2D(*p) for p in left]))
            prev = t
        out.append(PlanarCurve([Point2D(*p) for p in cur]))
        return tuple(out)

    return {(PlanarCurve, "split"): stub}


def _mk_split(degs, idx, k, tier, distinct=True):
    tag = "" if distinct else ",repeats-allowed"

    @proof(f"C15.jordan-split[{sname(degs)},seg={idx},k={k}{tag}]", "C15", tier=tier, props=["C15", "C06", "C13", "C08", "C10"],
           funcs=["jordancurve.JordanCurve.split", "jordancurve.JordanCurve.__split_segment", "jordancurve.JordanCurve.segments"], timeout=600)
    def _(h):
        j, allc, mode = build(h, degs)
        ts = [h.real(f"t{i}", mode) for i in range(k)]
        tol = Fraction(1e-6)
        h.assume(AND(*[AND(t >= 0, t <= 1) for t in ts]))
        if distinct:
            # public precondition for the exact contract: parameters strictly inside, pairwise different
            h.assume(AND(*[AND(t > 2 * tol, t < 1 - 2 * tol) for t in ts]))
            h.assume(AND(*[OR(ts[a] - ts[b] > 2 * tol, ts[b] - ts[a] > 2 * tol) for a in range(k) for b in range(a + 1, k)]))
        n0 = len(degs)
        # non-degenerate input (a Jordan curve has no zero-length segment): the end points of every segment differ
        h.assume(AND(*[OR(abs(c[0][0] - c[-1][0]) > tol, abs(c[0][1] - c[-1][1]) > tol) for c in allc]))
        old_pts = [[p for p in s.ctrlpoints] for s in j.segments]
        area0 = IntegrateJordan.vertical(j, 1, 0)
        with h.stubs(decasteljau_stub(h) if h.sym else {}):
            r, e = h.call(j.split, [idx] * k, list(ts))
        if not distinct:
            h.ensure("split-never-raises-for-parameters-in-[0,1]", e is None, detail=f"{type(e).__name__ if e else None}: {e}")
            if e is None:
                h.ensure("still-well-formed", wf_structure(j))
                h.ensure("no-zero-length-piece", AND(*[OR(*[OR(NOT(EQ(p[0], c[0][0])), NOT(EQ(p[1], c[0][1]))) for p in c[1:]]) for c in view(j)]))
                h.ensure("at-most-one-piece-per-parameter", len(degs) <= len(j.segments) <= len(degs) + k)
                h.ensure("area-unchanged", EQ(IntegrateJordan.vertical(j, 1, 0), area0))
            return
        if e is not None:
            raise e
        h.ensure("returns-none", r is None)
        segs = j.segments
        h.ensure("segment-count-grows-by-number-of-parameters", len(segs) == n0 + k)
        # pieces of segment idx, in order of the sorted parameters
        order = sorted(range(k), key=lambda i: ts[i]) if not h.sym else None
        if h.sym:
            # the path fixed an order of the parameters; recover it from the path condition by asking the engine
            srt = list(ts)
            for a in range(k):
                for b in range(a + 1, k):
                    if bool(srt[b] < srt[a]):
                        srt[a], srt[b] = srt[b], srt[a]
        else:
            srt = sorted(ts)
        bounds = [0] + srt + [1]
        s_ = h.real("s", mode)
        px, py = spec.bezier_xy(allc[idx])
        cs = []
        reduced = [segs[idx + p].degree != degs[idx] for p in range(k + 1)]
        if any(reduced):
            # this path degree-reduced a curved piece (allowed within the library's 1e-9 tolerance): the exact
            # retrace / junction / area clauses do not apply; the within-1e-6 claim is bounded-only (C15.rc-split)
            h.note("paths on which clean() degree-reduces a curved piece are checked for structure only; the 1e-6 closeness claim is bounded")
            h.ensure("only-curved-pieces-are-ever-reduced", degs[idx] > 1)
            # (on these paths the setter's second clean() may even replace the re-glued junction objects: that is the
            #  open finding degree-reduced-split-piece, observed and pinned by the bounded C01.rc-curved / C15.rc-clean)
            return
        h.ensure("well-formed-after-split", wf_structure(j))
        for p in range(k + 1):
            piece = segs[idx + p]
            tt = bounds[p] + s_ * (bounds[p + 1] - bounds[p])
            v = spec.bezier_eval(seg_ctrl(piece), s_)
            cs.append(AND(EQ(v[0], spec.peval(px, tt)), EQ(v[1], spec.peval(py, tt))))
        h.ensure("each-piece-retraces-its-part-of-the-segment", AND(*cs))
        h.ensure("first-and-last-piece-glued-to-original-end-objects", segs[idx].ctrlpoints[0] is old_pts[idx][0] and segs[idx + k].ctrlpoints[-1] is old_pts[idx][-1])
        h.ensure("junction-points-lie-at-the-split-parameters", AND(*[AND(EQ(segs[idx + p].ctrlpoints[-1][0], spec.peval(px, srt[p])), EQ(segs[idx + p].ctrlpoints[-1][1], spec.peval(py, srt[p]))) for p in range(k)]))
        others_old = [old_pts[i] for i in range(n0) if i != idx]
        others_new = [list(segs[i].ctrlpoints) for i in range(len(segs)) if not (idx <= i <= idx + k)]
        h.ensure("other-segments-keep-their-point-objects", len(others_old) == len(others_new) and all(len(a) == len(b) and all(x is y for x, y in zip(a, b)) for a, b in zip(others_old, others_new)))
        h.ensure("other-segments-keep-their-values", view_eq(tuple(tuple(xy(p) for p in a) for a in others_new), tuple(tuple(c) for i, c in enumerate(allc) if i != idx)))
        h.ensure("area-unchanged", EQ(IntegrateJordan.vertical(j, 1, 0), area0))
        if mode == "Q":
            h.ensure("exact-type", AND(*[AND(is_wellformed_fraction(p[0]), is_wellformed_fraction(p[1])) for c in view(j) for p in c]))


def _mk_filter(degs, tier):
    @proof(f"C15.split-filter[{sname(degs)}]", "C15", tier=tier, props=["C15", "C06", "C12"], funcs=["jordancurve.JordanCurve.split"])
    def _(h):
        """parameters within 1e-6 of 0 or 1 are ignored (no piece, no exception, curve untouched); bad indices /
        parameters outside [0,1] / length mismatch are rejected before any change."""
        j, allc, mode = build(h, degs)
        t = h.real("t", mode)
        tol = Fraction(1e-6)
        h.assume(AND(t >= 0, t <= 1, OR(t < tol, t > 1 - tol)))
        before = view(j)
        objs = [id(p) for s in j.segments for p in s.ctrlpoints]

        def no_split(seg, nodes):
            from ..harness import CalleePre

            raise CalleePre("a parameter within 1e-6 of 0/1 reached PlanarCurve.split (it must be ignored)")

        with h.stubs({(PlanarCurve, "split"): no_split}):
            r, e = h.call(j.split, [0, len(degs) - 1], [t, t])
        h.ensure("near-end-parameters-accepted", e is None, detail=f"{type(e).__name__ if e else None}: {e}")
        h.ensure("near-end-parameters-create-no-piece", AND(len(j.segments) == len(degs), view_eq(view(j), before), [id(p) for s in j.segments for p in s.ctrlpoints] == objs))
        u = h.real("u", mode)
        h.assume(OR(u < 0, u > 1))
        for args in (([0], [u]), ([len(degs)], [Fraction(1, 2)]), ([-1], [Fraction(1, 2)]), ([0, 1], [Fraction(1, 2)]), ([0.0], [Fraction(1, 2)])):
            _, e = h.call(j.split, *args)
            h.ensure("invalid-arguments-rejected", e is not None)
            h.ensure("rejected-call-leaves-curve-unchanged", AND(view_eq(view(j), before), [id(p) for s in j.segments for p in s.ctrlpoints] == objs))


def _mk_multi(degs, tier):
    @proof(f"C15.jordan-split-two-segments[{sname(degs)}]", "C15", tier=tier, props=["C15", "C06"], funcs=["jordancurve.JordanCurve.split", "jordancurve.JordanCurve.__split_segment"], timeout=600)
    def _(h):
        """one parameter on each of two different segments (exercises the `shift` bookkeeping)."""
        j, allc, mode = build(h, degs)
        t0, t1 = h.real("t0", mode), h.real("t1", mode)
        tol = Fraction(1e-6)
        h.assume(AND(t0 > 2 * tol, t0 < 1 - 2 * tol, t1 > 2 * tol, t1 < 1 - 2 * tol))
        last = len(degs) - 1
        with h.stubs(decasteljau_stub(h) if h.sym else {}):
            j.split([last, 0], [t1, t0])  # unsorted on purpose
        segs = j.segments
        h.ensure("two-more-segments", len(segs) == len(degs) + 2 and wf_structure(j))
        a = spec.bezier_eval(allc[0], t0)
        b = spec.bezier_eval(allc[last], t1)
        h.ensure("junctions-at-the-right-places", AND(EQ(segs[0].ctrlpoints[-1][0], a[0]), EQ(segs[0].ctrlpoints[-1][1], a[1]),
                                                       EQ(segs[last + 1].ctrlpoints[-1][0], b[0]), EQ(segs[last + 1].ctrlpoints[-1][1], b[1])))
        h.ensure("start-and-end-preserved", AND(EQ(segs[0].ctrlpoints[0][0], allc[0][0][0]), EQ(segs[-1].ctrlpoints[-1][0], allc[last][-1][0]),
                                                EQ(segs[-1].ctrlpoints[-1][1], allc[last][-1][1])))
        want_mid = tuple(tuple(c) for c in allc[1:last])
        h.ensure("middle-segments-untouched", view_eq(view(j)[2:last + 1], want_mid))


def _mk_shift(degs, tier):
    @proof(f"C15.jordan-split-shift[{sname(degs)}]", "C15", tier=tier, props=["C15", "C06", "C01"], funcs=["jordancurve.JordanCurve.split", "jordancurve.JordanCurve.__split_segment"], timeout=600)
    def _(h):
        """two parameters on the first segment and one on the last: the later cut must land in the right segment
        (offset = number of nodes inserted before it)."""
        j, allc, mode = build(h, degs)
        t0, t1, t2 = h.real("t0", mode), h.real("t1", mode), h.real("t2", mode)
        tol = Fraction(1e-6)
        h.assume(AND(t0 > 2 * tol, t1 - t0 > 2 * tol, t1 < 1 - 2 * tol, t2 > 2 * tol, t2 < 1 - 2 * tol))
        last = len(degs) - 1
        with h.stubs(decasteljau_stub(h) if h.sym else {}):
            j.split([0, last, 0], [t1, t2, t0])
        segs = j.segments
        h.ensure("three-more-segments", len(segs) == len(degs) + 3 and wf_structure(j))
        a0, a1 = spec.bezier_eval(allc[0], t0), spec.bezier_eval(allc[0], t1)
        b = spec.bezier_eval(allc[last], t2)
        h.ensure("cuts-land-on-the-right-segments", AND(EQ(segs[0].ctrlpoints[-1][0], a0[0]), EQ(segs[0].ctrlpoints[-1][1], a0[1]),
                                                        EQ(segs[1].ctrlpoints[-1][0], a1[0]), EQ(segs[1].ctrlpoints[-1][1], a1[1]),
                                                        EQ(segs[last + 2].ctrlpoints[-1][0], b[0]), EQ(segs[last + 2].ctrlpoints[-1][1], b[1])))
        want_mid = tuple(tuple(c) for c in allc[1:last])
        h.ensure("middle-segments-untouched", view_eq(view(j)[3:last + 2], want_mid))
        h.ensure("closing-point-preserved", AND(EQ(segs[-1].ctrlpoints[-1][0], allc[last][-1][0]), EQ(segs[-1].ctrlpoints[-1][1], allc[last][-1][1])))


def _mk_shift_merged(degs, tier):
    @proof(f"C15.jordan-split-shift-merged[{sname(degs)}]", "C15", tier=tier, props=["C15", "C06"], funcs=["jordancurve.JordanCurve.split", "jordancurve.JordanCurve.__split_segment"], timeout=600)
    def _(h):
        """a repeated parameter on the first segment (merged into one cut) and one parameter on the last: the later
        cut must still land in the right segment (the offset counts inserted pieces, not requested parameters)."""
        j, allc, mode = build(h, degs)
        t0, t2 = h.real("t0", mode), h.real("t2", mode)
        tol = Fraction(1e-6)
        h.assume(AND(t0 > 2 * tol, t0 < 1 - 2 * tol, t2 > 2 * tol, t2 < 1 - 2 * tol))
        last = len(degs) - 1
        with h.stubs(decasteljau_stub(h) if h.sym else {}):
            _, e = h.call(j.split, [0, last, 0], [t0, t2, t0])
        h.ensure("repeated-parameter-accepted", e is None, detail=f"{type(e).__name__ if e else None}: {e}")
        if e is not None:
            return
        segs = j.segments
        h.ensure("one-cut-per-distinct-parameter", len(segs) == len(degs) + 2 and wf_structure(j))
        a0 = spec.bezier_eval(allc[0], t0)
        b = spec.bezier_eval(allc[last], t2)
        h.ensure("cuts-land-on-the-right-segments", AND(EQ(segs[0].ctrlpoints[-1][0], a0[0]), EQ(segs[0].ctrlpoints[-1][1], a0[1]),
                                                        EQ(segs[last + 1].ctrlpoints[-1][0], b[0]), EQ(segs[last + 1].ctrlpoints[-1][1], b[1])))
        h.ensure("closing-point-preserved", AND(EQ(segs[-1].ctrlpoints[-1][0], allc[last][-1][0]), EQ(segs[-1].ctrlpoints[-1][1], allc[last][-1][1])))


_mk_shift_merged((1, 1, 1), "quick")
_mk_shift((1, 1, 1), "quick")
_mk_shift((1, 1, 1, 1), "quick")
for _degs, _idx in (((1, 1, 1), 0), ((1, 1, 1), 2), ((1, 2), 1), ((1, 1, 1, 1), 1)):
    _mk_split(_degs, _idx, 1, "quick")
_mk_split((1, 1, 1), 1, 2, "quick")
_mk_split((1, 2), 1, 2, "thorough")
_mk_split((1, 3), 1, 1, "thorough")
_mk_split((1, 1, 1), 0, 3, "thorough")
_mk_split((1, 1, 1), 0, 2, "quick", distinct=False)
_mk_filter((1, 1, 1), "quick")
_mk_filter((1, 2), "quick")
_mk_multi((1, 1, 1), "quick")
_mk_multi((1, 2, 1), "thorough")
