"""Layer L3, part c: C19 (direct constructors), C07 (shape equality), C11 (exceptional frames), C01/C05 partition."""
from __future__ import annotations

import copy as _copy
from fractions import Fraction

import z3

import shapepy.shape as S
from shapepy.jordancurve import JordanCurve
from shapepy.polygon import Point2D
from shapepy.shape import (BaseShape, ConnectedShape, DefinedShape, DisjointShape, EmptyShape, FollowPath, SimpleShape,
                           WholeShape)

from ..ghost import BoolFold
from ..harness import AND, EQ, IFF, IMPLIES, ITE, NOT, OR, CalleePre, T, proof
from ..loopcut import AbsSeq, LoopCtl, StopPath, cut
from ..symx import Engine, Sym, SymBool
from .common import disjoint_heaps, shape_view, shape_view_eq, view, view_eq


class _FJ:
    """fake boundary curve with a symbolic signed length"""

    def __init__(self, ln):
        self.ln = ln

    def __float__(self):
        return self.ln


def _mk_sub(cls=SimpleShape):
    class Sub(cls):
        def __new__(c, *a, **k):
            return object.__new__(c)

        def __init__(self, area, ln=None, tag=None):
            self.area, self.tag = area, tag
            self._j = (_FJ(ln),)

        def __float__(self):
            return self.area

        @property
        def jordans(self):
            return self._j

    return Sub


def _mk_setter(n):
    @proof(f"C19.setter[n={n}]", "C19", funcs=["shape.ConnectedShape.subshapes", "shape.DisjointShape.subshapes"], abstract=True)
    def _(h):
        """stored subshapes are a permutation (by identity) of the input, sorted by area (Disjoint: then by
        boundary length), descending -- for all areas/lengths."""
        if not h.sym:
            return
        eng = Engine.cur
        Sub = _mk_sub()
        areas = [eng.fresh_real(f"a{i}", "F") for i in range(n)]
        lens = [eng.fresh_real(f"l{i}", "F") for i in range(n)]
        vals = [Sub(areas[i], lens[i], i) for i in range(n)]
        c = object.__new__(ConnectedShape)
        c.subshapes = list(vals)
        st = c.subshapes
        h.ensure("connected-stores-tuple-permutation", isinstance(st, tuple) and len(st) == n and sorted(s.tag for s in st) == list(range(n)))
        h.ensure("connected-sorted-by-area-descending", AND(*[st[i].area >= st[i + 1].area for i in range(n - 1)]))
        d = object.__new__(DisjointShape)
        DisjointShape.subshapes.fset(d, list(vals))
        sd = d.subshapes
        h.ensure("disjoint-stores-tuple-permutation", isinstance(sd, tuple) and len(sd) == n and sorted(s.tag for s in sd) == list(range(n)))
        h.ensure("disjoint-sorted-by-area-then-length-descending",
                 AND(*[OR(sd[i].area > sd[i + 1].area, AND(EQ(sd[i].area, sd[i + 1].area), sd[i]._j[0].ln >= sd[i + 1]._j[0].ln)) for i in range(n - 1)]))
        _, e = h.call(setattr, c, "subshapes", [vals[0], WholeShape()] if n else [WholeShape()])
        h.ensure("connected-rejects-non-simple", isinstance(e, AssertionError))


for _n in (0, 1, 2, 3):
    _mk_setter(_n)


@proof("C19.new", "C19", funcs=["shape.DisjointShape.__new__", "shape.DisjointShape.__init__", "shape.ConnectedShape.__init__",
                                "shape.ConnectedShape.jordans", "shape.DisjointShape.jordans", "shape.ConnectedShape.__invert__"], props=["C19", "C06", "C08"])
def _c19_new(h):
    """collapse rules of DisjointShape(...) and the structure of directly constructed composites (real shapes on
    symbolic triangles)."""
    def tri(pfx, mode="Q"):
        pts = [h.point(f"{pfx}{i}", mode) for i in range(3)]
        return SimpleShape(JordanCurve.from_vertices(pts)), pts

    s1, p1 = tri("a")
    s2, p2 = tri("b")
    h.ensure("empty-list-is-empty", DisjointShape([]) is EmptyShape())
    h.ensure("only-empty-entries-is-empty", DisjointShape([EmptyShape(), EmptyShape()]) is EmptyShape())
    r = DisjointShape([s1])
    h.ensure("single-shape-is-a-fresh-copy", AND(type(r) is SimpleShape, r is not s1, disjoint_heaps([r], [s1]), shape_view_eq(shape_view(r), shape_view(s1))))
    r = DisjointShape([EmptyShape(), s1, EmptyShape()])
    h.ensure("empty-entries-are-dropped", AND(type(r) is SimpleShape, r is not s1, shape_view_eq(shape_view(r), shape_view(s1))))
    _, e = h.call(DisjointShape, [s1, WholeShape()])
    h.ensure("whole-entry-rejected", isinstance(e, AssertionError))
    _, e = h.call(DisjointShape, [s1, 5])
    h.ensure("non-shape-entry-rejected", isinstance(e, AssertionError))
    if not h.sym:
        return
    # >= 2: a DisjointShape holding exactly the given shapes; jordans = concatenation in stored order
    a1, a2 = Engine.cur.fresh_real("A1", "F"), Engine.cur.fresh_real("A2", "F")
    fl = {id(s1): a1, id(s2): a2}
    with h.stubs({(DefinedShape, "__float__"): lambda self: fl.get(id(self), Fraction(1)), (JordanCurve, "__float__"): lambda self: Fraction(1)}):
        d = DisjointShape([s1, s2])
        h.ensure("two-shapes-give-disjoint-shape", type(d) is DisjointShape and len(d.subshapes) == 2 and {id(x) for x in d.subshapes} == {id(s1), id(s2)})
        h.ensure("jordans-is-concatenation-in-subshape-order", [id(j) for j in d.jordans] == [id(j) for s in d.subshapes for j in s.jordans])
        c = ConnectedShape([s1, s2])
        h.ensure("connected-jordans-in-subshape-order", [id(j) for j in c.jordans] == [id(s.jordans[0]) for s in c.subshapes])
        inv = ~c
        h.ensure("complement-of-connected-is-disjoint-of-complements", type(inv) is DisjointShape and len(inv.subshapes) == 2)
        want = {tuple((x.t.sexpr(), y.t.sexpr()) for x, y in reversed(seg)) for s in (s1, s2) for seg in view(s.jordans[0])}
        got = {tuple((x.t.sexpr(), y.t.sexpr()) for x, y in seg) for s in inv.subshapes for seg in view(s.jordans[0])}
        h.ensure("complement-reverses-every-boundary-curve", want == got)
        h.ensure("complement-shares-nothing", disjoint_heaps([inv], [c]))


# ------------------------------------------------------------------ C07 shape equality

@proof("C07.shape-eq", "C07", funcs=["shape.SimpleShape.__eq__", "shape.ConnectedShape.__eq__", "shape.DisjointShape.__eq__"], abstract=True)
def _shape_eq(h):
    """modular over JordanCurve.__eq__ (ghost relation CEQ, an equivalence) and float(): Simple == Simple iff same
    curve (and equal areas follow); different kinds => False; composites: same kind and same multiset of subshapes."""
    if not h.sym:
        return
    h.assumed_contract("JordanCurve.__eq__ decides curve equality and is an equivalence (bounded: C07.rc-*)")
    eng = Engine.cur
    # --- Simple
    a, b = object.__new__(SimpleShape), object.__new__(SimpleShape)
    ja, jb = object.__new__(JordanCurve), object.__new__(JordanCurve)
    a._SimpleShape__jordancurve, b._SimpleShape__jordancurve = ja, jb
    fa, fb = eng.fresh_real("fa", "F"), eng.fresh_real("fb", "F")
    ceq = eng.fresh_bool("ceq")
    eng.assume(z3.Implies(ceq.t, fa.t == fb.t))  # equal curves enclose equal areas
    with h.stubs({(DefinedShape, "__float__"): lambda s: fa if s is a else fb, (JordanCurve, "__eq__"): lambda x, y: bool(ceq)}):
        r = a == b
        h.ensure("simple-eq-iff-same-curve", SymBool(z3.BoolVal(bool(r)) == ceq.t))
        h.ensure("simple-eq-returns-bool", r is True or r is False)
        for other in (EmptyShape(), WholeShape(), object.__new__(ConnectedShape), object.__new__(DisjointShape)):
            h.ensure("different-kind-is-unequal", (a == other) is False)
        _, e = h.call(lambda: a == 5)
        h.ensure("non-shape-raises-ValueError", isinstance(e, ValueError))
    # --- composites: n = 2 subshapes each, ghost relation SEQ between subshapes
    for kind in (ConnectedShape, DisjointShape):
        Sub = _mk_sub()
        xs = [Sub(eng.fresh_real("x", "F"), None, ("x", i)) for i in range(2)]
        ys = [Sub(eng.fresh_real("y", "F"), None, ("y", i)) for i in range(2)]
        rel = {(i, j): eng.fresh_bool(f"seq{i}{j}") for i in range(2) for j in range(2)}
        for (i, j), v in rel.items():
            eng.assume(z3.Implies(v.t, xs[i].area.t == ys[j].area.t))
        # SEQ is (the restriction of) an equivalence: x_i ~ y_j and x_i ~ y_k and x_l ~ y_j  =>  x_l ~ y_k
        for i in range(2):
            for j in range(2):
                for k in range(2):
                    for l in range(2):
                        eng.assume(z3.Implies(z3.And(rel[(i, j)].t, rel[(i, k)].t, rel[(l, j)].t), rel[(l, k)].t))
        X, Y = object.__new__(kind), object.__new__(kind)
        setattr(X, f"_{kind.__name__}__subshapes", tuple(xs))
        setattr(Y, f"_{kind.__name__}__subshapes", tuple(ys))

        def sub_eq(p, q):
            if p.tag[0] == "x" and q.tag[0] == "y":
                return bool(rel[(p.tag[1], q.tag[1])])
            if p.tag[0] == "y" and q.tag[0] == "x":
                return bool(rel[(q.tag[1], p.tag[1])])
            raise CalleePre("subshape comparison within one operand")

        tot = lambda zs: zs[0].area + zs[1].area
        with h.stubs({(Sub, "__eq__"): sub_eq, (kind, "__float__"): lambda s: tot(xs) if s is X else tot(ys)}):
            r = X == Y
        match = z3.Or(z3.And(rel[(0, 0)].t, rel[(1, 1)].t), z3.And(rel[(0, 1)].t, rel[(1, 0)].t))
        h.ensure(f"{kind.__name__}-eq-iff-subshapes-match-as-multisets", SymBool(z3.BoolVal(bool(r)) == match))
        h.ensure(f"{kind.__name__}-eq-returns-bool", r is True or r is False)
        h.ensure(f"{kind.__name__}-different-kind-unequal", (X == a) is False and (X == EmptyShape()) is False)


# ------------------------------------------------------------------ C11 exceptional frames

class Boom(Exception):
    pass


def _mk_c11_contains(n):
    @proof(f"C11.contains-shape[n={n}]", "C11", funcs=["shape.SimpleShape._contains_shape"], abstract=True, props=["C11", "C08"])
    def _(h):
        """raising stubs: the nested query may raise at any call; on every exit (normal or exceptional) each
        operand has been inverted an even number of times."""
        if not h.sym:
            return
        eng = Engine.cur
        me = object.__new__(SimpleShape)
        subs = [object.__new__(SimpleShape) for _ in range(n)]
        other = object.__new__(ConnectedShape)
        other._ConnectedShape__subshapes = tuple(subs)
        flips = {id(s): 0 for s in subs + [me]}

        def stub_invert(shape):
            flips[id(shape)] += 1
            return shape

        def stub_contains(this, what):
            k = eng.choose(3, "query")
            if k == 2:
                raise Boom("nested query raised (stands for any exception, including an interrupt at this call)")
            return k == 1

        with h.stubs({(SimpleShape, "invert"): stub_invert, (DefinedShape, "__contains__"): stub_contains}):
            res, e = h.call(me._contains_shape, other)
        h.ensure("only-the-callee-exception-propagates", e is None or isinstance(e, Boom))
        h.ensure("operands-restored-on-every-exit", all(v % 2 == 0 for v in flips.values()),
                 detail=f"inversion counts on exit: {sorted(flips.values())} (exception: {type(e).__name__ if e else None})")


for _n in (1, 2, 3):
    _mk_c11_contains(_n)


@proof("C11.validate-before-mutate", "C11", funcs=["jordancurve.JordanCurve.move", "jordancurve.JordanCurve.scale", "jordancurve.JordanCurve.rotate",
                                                   "shape.DefinedShape.move", "shape.DefinedShape.scale", "shape.DefinedShape.rotate", "polygon.Point2D.scale"])
def _validate(h):
    """an in-place transformation that raises leaves every coordinate unchanged (symbolic triangle + hole,
    invalid arguments of several types)."""
    import decimal

    pts = [h.point(f"v{i}") for i in range(3)]
    hole = [h.point(f"w{i}") for i in range(3)]
    j = JordanCurve.from_vertices(pts)
    shapes = [SimpleShape(j)]
    if h.sym:
        fl = {}
        with h.stubs({(DefinedShape, "__float__"): lambda s: Fraction(len(fl) or 1), (JordanCurve, "__float__"): lambda s: Fraction(1)}):
            shapes.append(ConnectedShape([SimpleShape(JordanCurve.from_vertices(pts)), SimpleShape(JordanCurve.from_vertices(hole))]))
    bad_args = {
        "scale": [(2, "1.5"), ("1.5", 2), (2, None), (None, 2), (2, 1j), (2, decimal.Decimal("1.5")), (decimal.Decimal("1.5"), 2), ([2], 2), (2, "x")],
        "move": [("a", 1), (1, "a"), (None,), ((1, 2, 3),), (1, None), ("ab",)],
        "rotate": [("x",), (None,), (1j,), ("1.5", True), ([1.0],)],
    }
    for obj in [j] + shapes:
        before = shape_view(obj) if isinstance(obj, BaseShape) else (view(obj),)
        for op, arglist in bad_args.items():
            for args in arglist:
                _, e = h.call(getattr(obj, op), *args)
                now = shape_view(obj) if isinstance(obj, BaseShape) else (view(obj),)
                if e is not None:
                    h.ensure(f"{op}-rejecting-call-leaves-object-unchanged", shape_view_eq(now, before),
                             detail=f"{type(obj).__name__}.{op}{args!r} raised {type(e).__name__} after modifying the object")
                before = now  # (accepted calls, e.g. a numeric string, legitimately change the object)


# ------------------------------------------------------------------ C01 / C05 partition (nested loops cut)

@proof("C01.partition", "C01", funcs=["shape.FollowPath.midpoints_one_shape", "shape.FollowPath.midpoints_shapes"], abstract=True, props=["C01", "C05"])
def _partition(h):
    """for a concrete structure (curves with 1..3 segments) and the midpoint predicate uninterpreted: the index
    sets chosen for union (closed=True, inside=False) and intersection (closed=False, inside=True) are exactly the
    segments whose midpoint is outside / inside, they are complementary when no midpoint lies on the other
    boundary, and the second operand's indices are offset by len(shapea.jordans)."""
    if not h.sym:
        return
    eng = Engine.cur
    from shapepy.primitive import Primitive

    def mk(nj, off):
        js = [JordanCurve.from_ctrlpoints([[(off + 10 * k, 0), (off + 10 * k + 2, -1 - s), (off + 10 * k + 4, 0)],
                                           [(off + 10 * k + 4, 0), (off + 10 * k + 2, 2 + s), (off + 10 * k, 0)]]) for k, s in zip(range(nj), (0, 1, 2))]
        if nj == 1:
            return SimpleShape(js[0])
        o = object.__new__(DisjointShape)
        o._DisjointShape__subshapes = tuple(SimpleShape(x) for x in js)
        return o

    A, B = mk(2, 0), mk(1, 100)
    segsA = [(i, k) for i, jd in enumerate(A.jordans) for k in range(len(jd.segments))]
    segsB = [(i, k) for i, jd in enumerate(B.jordans) for k in range(len(jd.segments))]
    inside = {("A", ij): eng.fresh_bool("in") for ij in segsA}
    inside.update({("B", ij): eng.fresh_bool("in") for ij in segsB})
    onb = {k: eng.fresh_bool("on") for k in inside}
    for k in inside:
        eng.assume(z3.Implies(onb[k].t, z3.Not(inside[k].t)))  # `inside` = strictly inside
    mids = {}
    for nm, sh in (("A", A), ("B", B)):
        for i, jd in enumerate(sh.jordans):
            for k, seg in enumerate(jd.segments):
                m = seg(Fraction(1, 2))
                mids[(Fraction(m[0]), Fraction(m[1]))] = (nm, (i, k))

    def stub_cp(shape, point, boundary=True):
        key = mids.get((Fraction(point[0]), Fraction(point[1])))
        if key is None:
            raise CalleePre("contains_point must be asked about a segment midpoint (parameter 1/2)")
        if (key[0] == "A") != (shape is B):
            raise CalleePre("midpoint must be tested against the *other* operand")
        if not isinstance(boundary, bool):
            raise CalleePre("boundary flag")
        return bool(SymBool(z3.Or(inside[key].t, z3.And(onb[key].t, z3.BoolVal(boundary)))))

    with h.stubs({(DefinedShape, "contains_point"): stub_cp}):
        un = FollowPath.midpoints_shapes(A, B, closed=True, inside=False)
        it = FollowPath.midpoints_shapes(A, B, closed=False, inside=True)
    nA = len(A.jordans)
    allidx = [("A", ij, ij) for ij in segsA] + [("B", ij, (nA + ij[0], ij[1])) for ij in segsB]
    h.ensure("indices-are-valid-and-unique", len(set(un)) == len(un) and len(set(it)) == len(it) and set(un) | set(it) <= {x[2] for x in allidx})
    h.ensure("union-keeps-exactly-the-pieces-strictly-outside", AND(*[IFF(x[2] in un, SymBool(z3.And(z3.Not(inside[(x[0], x[1])].t), z3.Not(onb[(x[0], x[1])].t)))) for x in allidx]))
    h.ensure("intersection-keeps-exactly-the-pieces-strictly-inside", AND(*[IFF(x[2] in it, inside[(x[0], x[1])]) for x in allidx]))
    noon = z3.And(*[z3.Not(v.t) for v in onb.values()])
    h.ensure("complementary-when-no-midpoint-on-a-boundary", SymBool(z3.Implies(noon, z3.BoolVal(set(un) & set(it) == set() and set(un) | set(it) == {x[2] for x in allidx}))))
