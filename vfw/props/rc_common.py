"""helpers of the bounded (run-time contract checking) harnesses: library objects <-> oracle descriptions"""
from __future__ import annotations

from fractions import Fraction

from shapepy.jordancurve import JordanCurve
from shapepy.polygon import Point2D
from shapepy.shape import (BaseShape, ConnectedShape, DefinedShape, DisjointShape, EmptyShape, SimpleShape, WholeShape)

from .. import oracle
from ..oracle import Desc, GridRegion

SCALE = {"frac": Fraction(1), "int": Fraction(3), "float": Fraction(1)}


def cast(v, typ):
    v = Fraction(v) * SCALE[typ]
    if typ == "int":
        assert v.denominator == 1
        return int(v)
    if typ == "float":
        return float(v)
    return v


def loop_to_jordan(loop, typ):
    return JordanCurve.from_vertices([(cast(x, typ), cast(y, typ)) for x, y in loop])


def to_shape(region: GridRegion, typ="frac", order=None):
    """library shape denoting the grid region, through the *direct* constructors only"""
    if region.is_empty():
        return EmptyShape()
    if region.is_whole():
        return WholeShape()
    comps = []
    for outer, holes in region.components():
        loops = ([outer] if outer is not None else []) + list(holes)
        if order == "reversed":
            loops = loops[::-1]
        simples = [SimpleShape(loop_to_jordan(lp, typ)) for lp in loops]
        comps.append(simples[0] if len(simples) == 1 else ConnectedShape(simples))
    if order == "reversed":
        comps = comps[::-1]
    return comps[0] if len(comps) == 1 else DisjointShape(comps)


def q(p, typ):
    """query point in the library's coordinates (int-typed shapes are queried with exact Fractions)"""
    if typ == "int":
        return (Fraction(p[0]) * SCALE[typ], Fraction(p[1]) * SCALE[typ])
    return (cast(p[0], typ), cast(p[1], typ))


def exact(v):
    if isinstance(v, Fraction):
        return v
    if isinstance(v, int):
        return Fraction(v)
    return Fraction(float(v))


def lib_curve(jordan):
    return [[(exact(p[0]), exact(p[1])) for p in seg.ctrlpoints] for seg in jordan.segments]


def desc_of(shape) -> Desc:
    """oracle description read from a library object's *structure and control points* (not its predicates)"""
    if isinstance(shape, EmptyShape):
        return Desc("empty")
    if isinstance(shape, WholeShape):
        return Desc("whole")
    if isinstance(shape, SimpleShape):
        return Desc("simple", lib_curve(shape.jordans[0]))
    if isinstance(shape, ConnectedShape):
        return Desc("all", parts=[desc_of(s) for s in shape.subshapes])
    if isinstance(shape, DisjointShape):
        return Desc("any", parts=[desc_of(s) for s in shape.subshapes])
    raise TypeError(type(shape))


def well_formed(shape):
    """structural well-formedness of a library shape (C06): returns list of problems"""
    probs = []
    if isinstance(shape, (EmptyShape, WholeShape)):
        return probs
    for jd in shape.jordans:
        segs = jd.segments
        n = len(segs)
        if n < 2:
            probs.append("curve with fewer than two segments")
        for i in range(n):
            a, b = segs[i].ctrlpoints[-1], segs[(i + 1) % n].ctrlpoints[0]
            if a is not b:
                probs.append("junction not shared by identity")
            pts = [(exact(p[0]), exact(p[1])) for p in segs[i].ctrlpoints]
            if all(p == pts[0] for p in pts):
                probs.append(f"zero-length segment at {pts[0]}")
        if any(s.degree == 1 for s in segs) and all(s.degree == 1 for s in segs):
            vs = [(exact(s.ctrlpoints[0][0]), exact(s.ctrlpoints[0][1])) for s in segs]
            if _self_crossing(vs):
                probs.append("polygonal boundary crosses itself")
    if isinstance(shape, SimpleShape):
        if len(shape.jordans) != 1:
            probs.append("simple shape without exactly one boundary")
    elif isinstance(shape, ConnectedShape):
        subs = shape.subshapes
        if len(subs) < 2:
            probs.append("connected shape with fewer than 2 boundaries")
        pos = [s for s in subs if oracle.curve_area(lib_curve(s.jordans[0])) > 0]
        if len(pos) > 1:
            probs.append("connected shape with more than one counter-clockwise boundary")
        if not all(isinstance(s, SimpleShape) for s in subs):
            probs.append("connected shape with non-simple member")
    elif isinstance(shape, DisjointShape):
        if len(shape.subshapes) < 2:
            probs.append("disjoint shape with fewer than 2 components")
        for s in shape.subshapes:
            if not isinstance(s, (SimpleShape, ConnectedShape)):
                probs.append("disjoint shape with a member that is not simple/connected")
            probs.extend(well_formed(s))
    return probs


def _seg_cross(p1, p2, p3, p4):
    def orient(a, b, c):
        v = (b[0] - a[0]) * (c[1] - a[1]) - (b[1] - a[1]) * (c[0] - a[0])
        return (v > 0) - (v < 0)

    return orient(p1, p2, p3) * orient(p1, p2, p4) < 0 and orient(p3, p4, p1) * orient(p3, p4, p2) < 0


def _self_crossing(vs):
    n = len(vs)
    for i in range(n):
        for j in range(i + 2, n):
            if i == 0 and j == n - 1:
                continue
            if _seg_cross(vs[i], vs[(i + 1) % n], vs[j], vs[(j + 1) % n]):
                return True
    return False


def structure(shape):
    """(kind, number of components, sorted hole counts)"""
    if isinstance(shape, EmptyShape):
        return ("Empty", 0, ())
    if isinstance(shape, WholeShape):
        return ("Whole", 0, ())
    if isinstance(shape, SimpleShape):
        return ("Simple", 1, (0,))
    if isinstance(shape, ConnectedShape):
        return ("Connected", 1, (len(shape.subshapes) - 1,))
    return ("Disjoint", len(shape.subshapes), tuple(sorted(len(s.jordans) - 1 for s in shape.subshapes)))


def truth_structure(region: GridRegion):
    if region.is_empty():
        return ("Empty", 0, ())
    if region.is_whole():
        return ("Whole", 0, ())
    comps = region.components()
    counts = tuple(sorted((len(h) if o is not None else len(h) - 1) for o, h in comps))
    if len(comps) == 1:
        return ("Simple" if counts == (0,) else "Connected", 1, counts)
    return ("Disjoint", len(comps), counts)


def coords_of(*shapes):
    """ids of all Point2D objects reachable (for the no-shared-state checks)"""
    from .common import reach

    return {i for i, o in reach(*shapes).items() if isinstance(o, Point2D)}


OPS = {
    "or": (lambda a, b: a | b, lambda a, b: a | b),
    "and": (lambda a, b: a & b, lambda a, b: a & b),
    "sub": (lambda a, b: a - b, lambda a, b: a - b),
    "xor": (lambda a, b: a ^ b, lambda a, b: a ^ b),
}
