"""C12 -- results do not depend on position, orientation or unit of length (relational contracts)."""
from __future__ import annotations

from fractions import Fraction

import z3

from shapepy.curve import IntegratePlanar, Intersection, PlanarCurve
from shapepy.polygon import Box, Point2D

from .. import spec
from ..harness import AND, EQ, IFF, IMPLIES, NOT, OR, proof
from ..symx import Engine, Sym
from .common import mk_segment, xy


def _sim(h, with_rotation):
    """similarity T(p) = k R p + d, k > 0; R = rotation given by (c, s) with c^2 + s^2 = 1 (or identity)"""
    k = h.real("k", "F")
    dx, dy = h.reals("dx dy", "F")
    h.assume(k > 0)
    if with_rotation:
        c, s = h.real("c", "F"), h.real("s", "F")
        h.assume(EQ(c * c + s * s, 1))
    else:
        c, s = 1, 0

    def T(p):
        return (k * (c * p[0] - s * p[1]) + dx, k * (s * p[0] + c * p[1]) + dy)

    return T, k


def _mk_eval(d):
    @proof(f"C12.eval-equivariant[d={d}]", "C12", funcs=["curve.PlanarCurve.eval", "curve.PlanarCurve.derivate"], props=["C12", "C09"])
    def _(h):
        """affine invariance of Bezier evaluation: eval(T(P))(t) = T(eval(P)(t)) (so midpoints, split points and
        sample points of a transformed curve are the transformed ones)."""
        T, k = _sim(h, True)
        seg, ctrl = mk_segment(h, "p", d, "F")
        t = h.real("t", "F")
        seg2 = PlanarCurve([T(p) for p in ctrl])
        a = seg(t)
        b = seg2(t)
        ta = T(xy(a))
        h.ensure("eval-commutes-with-similarity", AND(EQ(b[0], ta[0]), EQ(b[1], ta[1])))
        m1, m2 = seg(Fraction(1, 2)), seg2(Fraction(1, 2))
        tm = T(xy(m1))
        h.ensure("midpoint-commutes-with-similarity", AND(EQ(m2[0], tm[0]), EQ(m2[1], tm[1])))


@proof("C12.lines-invariant[translation+scale]", "C12", funcs=["curve.Intersection.lines"], timeout=600)
def _lines_ts(h):
    T, k = _sim(h, False)
    A, ca = mk_segment(h, "a", 1, "F")
    B, cb = mk_segment(h, "b", 1, "F")
    r1 = Intersection.lines(A, B)
    r2 = Intersection.lines(PlanarCurve([T(p) for p in ca]), PlanarCurve([T(p) for p in cb]))
    h.ensure("same-arity", len(r1) == len(r2))
    if len(r1) == 2 and len(r2) == 2:
        h.ensure("same-parameters", AND(EQ(r1[0], r2[0]), EQ(r1[1], r2[1])))


@proof("C12.lines-invariant[rotation]", "C12", funcs=["curve.Intersection.lines"], timeout=900, tier="thorough")
def _lines_rot(h):
    """rotation through the rational parametrisation c = (1-m^2)/(1+m^2), s = 2m/(1+m^2) (all angles but pi)."""
    m = h.real("m", "F")
    den = 1 + m * m
    c, s = (1 - m * m) / den, 2 * m / den

    def T(p):
        return (c * p[0] - s * p[1], s * p[0] + c * p[1])

    A, ca = mk_segment(h, "a", 1, "F")
    B, cb = mk_segment(h, "b", 1, "F")
    r1 = Intersection.lines(A, B)
    r2 = Intersection.lines(PlanarCurve([T(p) for p in ca]), PlanarCurve([T(p) for p in cb]))
    h.ensure("same-arity", len(r1) == len(r2))
    if len(r1) == 2 and len(r2) == 2:
        h.ensure("same-parameters", AND(EQ(r1[0], r2[0]), EQ(r1[1], r2[1])))


def _mk_vertical(d, a, b):
    @proof(f"C12.vertical-scaling[d={d},a={a},b={b}]", "C12", funcs=["curve.IntegratePlanar.vertical"], props=["C12", "C09"])
    def _(h):
        k = h.real("k", "F")
        h.assume(k > 0)
        seg, ctrl = mk_segment(h, "p", d, "F")
        v1 = IntegratePlanar.vertical(seg, a, b)
        v2 = IntegratePlanar.vertical(PlanarCurve([(k * p[0], k * p[1]) for p in ctrl]), a, b)
        h.ensure("scales-with-k^(a+b+1)", EQ(v2, v1 * k ** (a + b + 1)))
        sx, sy = h.reals("sx sy", "F")
        v3 = IntegratePlanar.vertical(PlanarCurve([(sx * p[0], sy * p[1]) for p in ctrl]), a, b)
        h.ensure("anisotropic-scaling-sx^a*sy^(b+1)", EQ(v3, v1 * sx ** a * sy ** (b + 1)))


@proof("C12.box-equivariant", "C12", funcs=["curve.PlanarCurve.box"])
def _box(h):
    T, k = _sim(h, False)
    for d in (1, 2, 3):
        seg, ctrl = mk_segment(h, f"p{d}_", d, "F")
        b1 = seg.box()
        b2 = PlanarCurve([T(p) for p in ctrl]).box()
        lo, hi = T(xy(b1.lowpt)), T(xy(b1.toppt))
        h.ensure("box-of-image-is-image-of-box", AND(EQ(b2.lowpt[0], lo[0]), EQ(b2.lowpt[1], lo[1]), EQ(b2.toppt[0], hi[0]), EQ(b2.toppt[1], hi[1])))


def _mk_tolerance_site(name, fn, note):
    @proof(f"C12.tolerance-site[{name}]", "C12", funcs=[note], expect="refuted", tier="thorough",
           note="absolute tolerance: the relational contract is refuted by design; pins the call site that makes results unit dependent")
    def _(h):
        fn(h)


def _site_point_eq(h):
    k = h.real("k", "F")
    h.assume(k > 0)
    ax, bx = h.reals("ax bx", "F")
    h.ensure("point-eq-invariant-under-scaling", IFF(Point2D(ax, 0) == Point2D(bx, 0), Point2D(k * ax, 0) == Point2D(k * bx, 0)))


def _site_box(h):
    k = h.real("k", "F")
    h.assume(k > 0)
    px = h.real("px", "F")
    b = Box(Point2D(0, 0), Point2D(1, 1))
    bk = Box(Point2D(0, 0), Point2D(k, k))
    h.ensure("box-contains-invariant-under-scaling", IFF(Point2D(px, 0) in b, Point2D(k * px, 0) in bk))


_mk_tolerance_site("Point2D.__eq__ 1e-9", _site_point_eq, "polygon.Point2D.__eq__")
_mk_tolerance_site("Box.__contains__ 1e-6", _site_box, "polygon.Box.__contains__")
for _d in (1, 2, 3):
    _mk_eval(_d)
for _d, _a, _b in ((1, 1, 0), (1, 2, 1), (2, 1, 0), (2, 2, 0), (3, 1, 0)):
    _mk_vertical(_d, _a, _b)
