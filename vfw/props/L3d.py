"""Layer L3, part d: more of the recombination pipeline under contract (replacing bounded-only coverage):
FollowPath.indexs_to_jordan (fresh result, operands framed), FollowPath.split_two_jordans (modular),
JordanCurve.__contains__ (loop cut), FollowPath.is_rotation / filter_rotations (exhaustive small domain)."""
from __future__ import annotations

import itertools
from fractions import Fraction

import z3

import shapepy.shape as S
from shapepy.curve import PlanarCurve
from shapepy.jordancurve import JordanCurve
from shapepy.polygon import Box, Point2D
from shapepy.shape import FollowPath

from ..ghost import BoolFold
from ..harness import AND, EQ, IFF, IMPLIES, NOT, OR, CalleePre, bounded, proof
from ..loopcut import AbsSeq, LoopCtl, StopPath, cut
from ..symx import Engine, Sym, SymBool
from .common import disjoint_heaps, frame_unchanged, sharing, snapshot, view, view_eq, wf_structure


@proof("C08.indexs-to-jordan", "C08", funcs=["shape.FollowPath.indexs_to_jordan", "jordancurve.JordanCurve.from_segments", "curve.PlanarCurve.__copy__"], props=["C08", "C06", "C01", "C05"])
def _indexs_to_jordan(h):
    """pieces taken from two operand curves are chained into a new closed curve: the result is the selected
    segments in order with their orientation, well formed, shares no object with the operands, and the operands
    (values *and* junction sharing) are untouched -- for all coordinates."""
    v0, v1, v2, w = h.point("v0"), h.point("v1"), h.point("v2"), h.point("w")
    j1 = JordanCurve.from_vertices([v0, v1, v2])
    j2 = JordanCurve.from_vertices([v1, w, v0])
    snap = snapshot(j1, j2)
    s1, s2 = sharing(j1), sharing(j2)
    r = FollowPath.indexs_to_jordan((j1, j2), ((0, 0), (1, 0), (1, 1)))
    h.ensure("result-is-the-selected-pieces-in-order", view_eq(view(r), ((v0, v1), (v1, w), (w, v0))))
    h.ensure("result-well-formed", wf_structure(r))
    h.ensure("result-shares-no-object-with-the-operands", disjoint_heaps([r], [j1, j2]))
    h.ensure("operands-framed", frame_unchanged(snap))
    h.ensure("operands-keep-their-own-junction-objects", sharing(j1) == s1 and sharing(j2) == s2 and disjoint_heaps([j1], [j2]))
    h.ensure("operand-views-unchanged", AND(view_eq(view(j1), ((v0, v1), (v1, v2), (v2, v0))), view_eq(view(j2), ((v1, w), (w, v0), (v0, v1)))))
    dx, dy = h.reals("dx dy")
    r.move(dx, dy)
    h.ensure("moving-the-result-leaves-operands", AND(view_eq(view(j1), ((v0, v1), (v1, v2), (v2, v0))), view_eq(view(j2), ((v1, w), (w, v0), (v0, v1)))))
    j1.move(dx, dy)
    h.ensure("moving-one-operand-leaves-the-other", view_eq(view(j2), ((v1, w), (w, v0), (v0, v1))))


@proof("C01.split-two-jordans", "C01", funcs=["shape.FollowPath.split_two_jordans"], abstract=True, props=["C01", "C15", "C11"])
def _split_two(h):
    """modular over `jordana & jordanb` (stub: 0..2 symbolic rows) and JordanCurve.split (recorder): each curve is
    split exactly at its own (segment, parameter) pairs, sorted, index and parameter lists aligned; disjoint boxes
    => nothing is touched."""
    if not h.sym:
        return
    eng = Engine.cur
    eng.allow_hash = True  # (segment, parameter) pairs: duplicates only merge equal requests
    ja = JordanCurve.from_vertices([(0, 0), (4, 0), (0, 3)])
    jb = JordanCurve.from_vertices([(1, -1), (5, 2), (1, 4)])
    nrows = eng.choose(3, "nrows")
    rows = []
    for i in range(nrows):
        a, b = eng.choose(3, f"a{i}"), eng.choose(3, f"b{i}")
        u, v = eng.fresh_real(f"u{i}"), eng.fresh_real(f"v{i}")
        eng.assume(z3.And(u.t > 0, u.t < 1, v.t > 0, v.t < 1))
        rows.append((a, b, u, v))
    calls = []

    def stub_and(x, y):
        if x is not ja or y is not jb:
            raise CalleePre("jordana & jordanb expected")
        return tuple(rows)

    def stub_split(self, indexs, nodes):
        calls.append((self, list(indexs), list(nodes)))

    disjoint = eng.fresh_bool("boxes_disjoint")

    class FB:
        def __and__(self, o):
            return None if bool(disjoint) else self

    with h.stubs({(JordanCurve, "__and__"): stub_and, (JordanCurve, "split"): stub_split, (JordanCurve, "box"): lambda self: FB()}):
        FollowPath.split_two_jordans(ja, jb)
    if bool(disjoint):
        h.ensure("disjoint-boxes-touch-nothing", calls == [])
        return
    h.ensure("each-curve-split-once", len(calls) == 2 and calls[0][0] is ja and calls[1][0] is jb)
    for (who, idx, nod), col in zip(calls, ((0, 2), (1, 3))):
        want = [(r[col[0]], r[col[1]]) for r in rows]
        got = list(zip(idx, nod))
        h.ensure("index-and-parameter-lists-aligned", len(idx) == len(nod))
        h.ensure("every-requested-cut-is-one-of-the-crossings", all(any(g[0] == w[0] and g[1] is w[1] for w in want) for g in got))
        h.ensure("every-crossing-is-requested", all(any(g[0] == w[0] and g[1] is w[1] for g in got) for w in want))
        h.ensure("cuts-sorted-by-segment", [g[0] for g in got] == sorted(g[0] for g in got))


@proof("C02.compose[JordanCurve.__contains__]", "C02", funcs=["jordancurve.JordanCurve.__contains__"], abstract=True, props=["C02", "C18"])
def _jordan_contains(h):
    """loop cut: `p in curve` is ANY over the segments, guarded by the box test (sound by C18.hull)."""
    if not h.sym:
        return
    h.lemma("box soundness: a point on a segment is inside the curve's box (C18.hull + L0.box or-is-bounding-union)")
    eng = Engine.cur
    on = BoolFold("on")
    inbox = eng.fresh_bool("inbox")

    class Seg(PlanarCurve):
        def __init__(self, k):
            self.k = k

    pt = Point2D(eng.fresh_real("px", "F"), eng.fresh_real("py", "F"))

    class FBox:
        def __contains__(self, p):
            if p is not pt:
                raise CalleePre("box test of another point")
            return bool(inbox)

    class AbsJ(JordanCurve):
        def __init__(self):
            pass

        segments = AbsSeq("segments", Seg)

        def box(self):
            return FBox()

    n = AbsJ.segments.n
    i = z3.Int("ii")
    eng.assume(z3.ForAll([i], z3.Implies(z3.And(i >= 0, i < n, on.V(i)), inbox.t)))

    def stub_in(seg, p):
        if not isinstance(seg, Seg) or p is not pt:
            raise CalleePre("`point in bezier` with the same point expected")
        return bool(on.value(seg.k))

    ctl = LoopCtl(h, {0: lambda env, k, s: SymBool(z3.Not(on.any(k)))}, fn_name="JordanCurve.__contains__")
    with h.stubs({(PlanarCurve, "__contains__"): stub_in}):
        cutfn, _ = cut(JordanCurve.__contains__, ctl)
        try:
            res = cutfn(AbsJ(), pt)
        except StopPath:
            return
    h.ensure("on-curve-iff-on-some-segment", SymBool(z3.BoolVal(bool(res)) == on.any(n)))


@bounded("C05.rc-rotation-filter", "C05", funcs=["shape.FollowPath.is_rotation", "shape.FollowPath.filter_rotations"], props=["C05", "C01"],
         bound="exhaustive: all pairs of sequences of length <= 4 over 4 distinct pair-labels (is_rotation), all lists of <= 3 cycles of length <= 3 (filter_rotations)")
def _rotations(h):
    labels = [(0, 0), (0, 1), (1, 0), (1, 1)]
    for n in range(1, 5):  # (never called with empty cycles: a path always holds its start segment)
        for a in itertools.permutations(labels, n):
            for b in itertools.permutations(labels, n):
                want = n == 0 or any(tuple(a[(i + r) % n] for i in range(n)) == b for r in range(n))
                try:
                    got = FollowPath.is_rotation(list(a), list(b))
                except Exception as e:  # noqa: BLE001
                    got = f"{type(e).__name__}"
                h.ensure("is_rotation-iff-cyclic-shift", got == want, detail=f"{a} vs {b}: {got}, expected {want}")
                h.case(("rot", n, want), True)
        for a in itertools.permutations(labels, n):
            h.ensure("different-lengths-are-not-rotations", FollowPath.is_rotation(list(a), list(a[:-1])) is False)
    cycles = [c for n in (2, 3) for c in itertools.permutations(labels[:3], n)]
    for k in range(1, 4):
        for combo in itertools.product(cycles, repeat=k):
            out = FollowPath.filter_rotations(list(combo))
            canon = lambda c: min(tuple(c[(i + r) % len(c)] for i in range(len(c))) for r in range(len(c)))
            want = []
            for c in combo:
                if canon(c) not in [canon(w) for w in want]:
                    want.append(c)
            h.ensure("filter_rotations-keeps-one-representative-per-cycle-in-order", tuple(out) == tuple(want), detail=f"{combo} -> {out}")
            h.case(("filter", k, len(want)), True)


def _mk_box_fold(owner_name):
    @proof(f"C17.box-fold[{owner_name}]", "C17", funcs=[f"{'jordancurve.JordanCurve' if owner_name == 'JordanCurve' else 'shape.DefinedShape'}.box"], abstract=True, props=["C17", "C02"])
    def _(h):
        """loop cut with an object-valued accumulator: box() of a curve (shape) is the fold of `|` over the boxes of
        its segments (curves), for every number of them: corner = running min / max of the element corners."""
        if not h.sym:
            return
        from shapepy.shape import DefinedShape, SimpleShape
        from ..symx import lift

        eng = Engine.cur
        F = {nm: (z3.Function(f"EL_{nm}", z3.IntSort(), z3.RealSort()), z3.Function(f"FOLD_{nm}", z3.IntSort(), z3.RealSort())) for nm in ("lx", "ly", "hx", "hy")}

        def unfold(k):
            cs = []
            for nm, (el, fo) in F.items():
                pick = (lambda a, b: z3.If(b < a, b, a)) if nm[0] == "l" else (lambda a, b: z3.If(b > a, b, a))
                cs.append(fo(1) == el(0))
                cs.append(z3.Implies(k >= 1, fo(k + 1) == pick(fo(k), el(k))))
            return z3.And(*cs)

        class Elem:
            def __init__(self, k):
                self.k = k

            def box(self):
                return Box(Point2D(Sym(F["lx"][0](self.k), "F"), Sym(F["ly"][0](self.k), "F")), Point2D(Sym(F["hx"][0](self.k), "F"), Sym(F["hy"][0](self.k), "F")))

        if owner_name == "JordanCurve":
            class Abs(JordanCurve):
                def __init__(self):
                    pass

                segments = AbsSeq("segments", Elem)

            seq, fn, var = Abs.segments, JordanCurve.box, "box"
        else:
            class Abs(SimpleShape):
                def __init__(self):
                    pass

                jordans = AbsSeq("jordans", Elem)

            seq, fn, var = Abs.jordans, DefinedShape.box, "box"

        def is_fold(b, k):
            return z3.And(lift(b.lowpt[0]) == F["lx"][1](k), lift(b.lowpt[1]) == F["ly"][1](k), lift(b.toppt[0]) == F["hx"][1](k), lift(b.toppt[1]) == F["hy"][1](k))

        def inv(env, k, s):
            eng.assume(unfold(k))
            eng.assume(unfold(k + 1))
            b = env[var]
            if b is None:
                return SymBool(k == 0)
            return SymBool(z3.And(k >= 1, is_fold(b, k)))

        def havoc_box(e, k):
            if e.decide(k == 0):
                return None
            return Box(Point2D(e.fresh_real("blx", "F"), e.fresh_real("bly", "F")), Point2D(e.fresh_real("bhx", "F"), e.fresh_real("bhy", "F")))

        ctl = LoopCtl(h, {0: inv}, havoc={0: {var: havoc_box}}, fn_name=f"{owner_name}.box")
        cutfn, _ = cut(fn, ctl)
        try:
            res = cutfn(Abs())
        except StopPath:
            return
        n = seq.n
        eng.assume(unfold(n))
        if res is None:
            h.ensure("no-element-gives-none", SymBool(n == 0))
        else:
            h.ensure("box-is-the-running-min-max-of-the-element-boxes", SymBool(z3.And(n >= 1, is_fold(res, n))))


_mk_box_fold("JordanCurve")
_mk_box_fold("DefinedShape")


def _mk_pursue(nsegs):
    tag = "x".join(map(str, nsegs))

    @proof(f"C01.pursue-path[{tag}]", "C01", funcs=["shape.FollowPath.pursue_path"], abstract=True, props=["C01", "C05"], max_paths=60000, timeout=900,
           tier="quick" if sum(nsegs) <= 5 else "thorough")
    def _(h):
        """path chasing with the point relations uninterpreted (`end point of segment s lies on curve j`, `equals the
        start point of segment (j, m)`): for the enumerated structure the loop always terminates, the result starts
        with the requested segment, visits no segment twice, and every step either continues along the same curve
        (when no other curve passes through the end point) or switches to a segment of another curve that *starts*
        at that end point."""
        if not h.sym:
            return
        eng = Engine.cur
        nj = len(nsegs)
        pts = {}
        jords = []
        for i, n in enumerate(nsegs):
            segs = []
            for k in range(n):
                a, b = Point2D(1000 * i + k, 0), Point2D(1000 * i + k + 1, 0)
                a.key, b.key = ("start", i, k), ("end", i, k)
                sg = object.__new__(PlanarCurve)
                sg._fake = (a, b)
                segs.append(sg)
            j = object.__new__(JordanCurve)
            j._segs = tuple(segs)
            j.idx = i
            jords.append(j)
        on = {}
        eq = {}

        def ON(i, k, j):
            if (i, k, j) not in on:
                on[(i, k, j)] = eng.fresh_bool(f"on_{i}_{k}_{j}")
            return on[(i, k, j)]

        def EQP(i, k, j, m):
            if (i, k, j, m) not in eq:
                v = eng.fresh_bool(f"eq_{i}_{k}_{j}_{m}")
                eng.assume(z3.Implies(v.t, ON(i, k, j).t))  # a start point of curve j lies on curve j
                eq[(i, k, j, m)] = v
            return eq[(i, k, j, m)]

        def stub_contains(jordan, point):
            kind, i, k = point.key
            if kind != "end" or jordan.idx == i:
                raise CalleePre("only `end point of the current segment in another curve` is asked")
            return bool(ON(i, k, jordan.idx))

        def stub_pt_eq(p, q):
            if getattr(p, "key", ("",))[0] == "start" and getattr(q, "key", ("",))[0] == "end":
                return bool(EQP(q.key[1], q.key[2], p.key[1], p.key[2]))
            raise CalleePre("only `start point of a candidate segment == end point of the current one` is asked")

        with h.stubs({(JordanCurve, "segments"): property(lambda self: self._segs), (PlanarCurve, "ctrlpoints"): property(lambda self: self._fake),
                      (JordanCurve, "__contains__"): stub_contains, (Point2D, "__eq__"): stub_pt_eq}):
            res = FollowPath.pursue_path(0, 0, tuple(jords))
        h.ensure("starts-with-the-requested-segment", len(res) >= 1 and res[0] == (0, 0))
        h.ensure("no-segment-twice-and-indices-valid", len(set(res)) == len(res) and all(0 <= a < nj and 0 <= b < nsegs[a] for a, b in res))
        cs = []
        for (a, b), (c, d) in zip(res[:-1], res[1:]):
            others = [j for j in range(nj) if j != a]
            none_on = z3.And(*[z3.Not(ON(a, b, j).t) for j in others]) if others else z3.BoolVal(True)
            if c == a:
                cs.append(z3.And(none_on, z3.BoolVal(d == (b + 1) % nsegs[a])))
            else:
                cs.append(z3.And(ON(a, b, c).t, z3.Or(EQP(a, b, c, d).t, z3.Not(z3.Or(*[EQP(a, b, c, m).t for m in range(nsegs[c])])))))
        h.ensure("every-step-continues-or-switches-at-a-shared-point", SymBool(z3.And(*cs)) if cs else True)


_mk_pursue((2, 2))
_mk_pursue((3, 2))
_mk_pursue((2, 2, 2))


@proof("C01.recombine-glue", "C01", funcs=["shape.FollowPath.or_shapes", "shape.FollowPath.and_shapes", "shape.FollowPath.follow_path"], abstract=True, props=["C01", "C05"])
def _glue(h):
    """or_shapes / and_shapes: every pair of boundary curves is split against each other first, then the pieces are
    selected with the documented flags (union: closed=True, inside=False; intersection: closed=False, inside=True),
    and paths are followed over `shapea.jordans + shapeb.jordans` in that order (the order the index offset assumes);
    follow_path pursues every start index, removes rotations, builds one curve per remaining cycle."""
    if not h.sym:
        return
    from shapepy.shape import SimpleShape, DisjointShape

    def tri(o):
        return SimpleShape(JordanCurve.from_vertices([(o, 0), (o + 3, 0), (o, 3)]))

    A = object.__new__(DisjointShape)
    A._DisjointShape__subshapes = (tri(0), tri(10))
    B = tri(1)
    for name, fn, flags in (("or", FollowPath.or_shapes, (True, False)), ("and", FollowPath.and_shapes, (False, True))):
        log = []

        def stub_split(ja, jb):
            log.append(("split", ja, jb))

        def stub_mid(sa, sb, closed, inside):
            log.append(("mid", sa, sb, closed, inside))
            return ((0, 1), (2, 0))

        def stub_follow(jordans, idx):
            log.append(("follow", tuple(jordans), idx))
            return ("J1",)

        with h.stubs({(FollowPath, "split_two_jordans"): staticmethod(stub_split), (FollowPath, "midpoints_shapes"): staticmethod(stub_mid), (FollowPath, "follow_path"): staticmethod(stub_follow)}):
            r = fn(A, B)
        splits = [(x[1], x[2]) for x in log if x[0] == "split"]
        h.ensure(f"{name}-splits-every-pair-of-curves-first", len(splits) == 2 and all(any(a is ja and b is B.jordans[0] for a, b in splits) for ja in A.jordans) and [x[0] for x in log][:2] == ["split", "split"])
        mids = [x for x in log if x[0] == "mid"]
        h.ensure(f"{name}-selects-pieces-with-the-documented-flags", len(mids) == 1 and mids[0][1] is A and mids[0][2] is B and (mids[0][3], mids[0][4]) == flags)
        fol = [x for x in log if x[0] == "follow"]
        h.ensure(f"{name}-follows-paths-over-a-then-b", len(fol) == 1 and len(fol[0][1]) == 3 and all(x is y for x, y in zip(fol[0][1], tuple(A.jordans) + tuple(B.jordans))) and fol[0][2] == ((0, 1), (2, 0)))
        h.ensure(f"{name}-returns-the-followed-curves", r == ("J1",))
    # follow_path
    log = []
    cycles = {(0, 0): ((0, 0), (1, 0)), (1, 0): ((1, 0), (0, 0)), (2, 1): ((2, 1),)}

    def stub_pursue(ij, iseg, jordans):
        log.append(("pursue", ij, iseg))
        return cycles[(ij, iseg)]

    def stub_build(jordans, matrix):
        log.append(("build", tuple(matrix)))
        return ("curve", tuple(matrix))

    js = tuple(A.jordans) + tuple(B.jordans)
    with h.stubs({(FollowPath, "pursue_path"): staticmethod(stub_pursue), (FollowPath, "indexs_to_jordan"): staticmethod(stub_build)}):
        out = FollowPath.follow_path(js, ((0, 0), (1, 0), (2, 1)))
    h.ensure("follow_path-pursues-every-start-index", [x[1:] for x in log if x[0] == "pursue"] == [(0, 0), (1, 0), (2, 1)])
    h.ensure("follow_path-one-curve-per-cycle-up-to-rotation", out == (("curve", ((0, 0), (1, 0))), ("curve", ((2, 1),))))


# ---------------------------------------------------------------- is_rotation / filter_rotations: discharged obligations
# (added after the build round: replaces the exhaustive-labels stand-in `C05.rc-rotation-filter` as the deciding check
# for these two functions; the stand-in stays as a cross-check of the spec function.)

def _pairs(h, prefix, n):
    return [(h.int(f"{prefix}{i}j"), h.int(f"{prefix}{i}s")) for i in range(n)]


def _peq(p, q):
    return AND(EQ(p[0], q[0]), EQ(p[1], q[1]))


def _distinct(seq):
    return AND(*[NOT(_peq(seq[i], seq[j])) for i in range(len(seq)) for j in range(i + 1, len(seq))]) if len(seq) > 1 else True


def _is_shift(a, b):
    """spec function: b is a cyclic shift of a (same length n): exists r < n, forall i: b[i] == a[(i + r) % n]"""
    n = len(a)
    return OR(*[AND(*[_peq(b[i], a[(i + r) % n]) for i in range(n)]) for r in range(n)])


def _mk_is_rotation(n, tier):
    @proof(f"C05.is-rotation[n={n}]", "C05", funcs=["shape.FollowPath.is_rotation"], props=["C05", "C01", "C06"], tier=tier)
    def _(h):
        """for every pair of cycles of length n over (curve index, segment index) labels with arbitrary integer
        values -- the first one without repeated labels, as every path of `pursue_path` is --: the real
        `is_rotation` answers True iff the second is a cyclic shift of the first; the arguments are not modified."""
        a, b = _pairs(h, "a", n), _pairs(h, "b", n)
        h.assume(_distinct(a))
        la, lb = list(a), list(b)
        got = FollowPath.is_rotation(la, lb)
        h.ensure("returns-a-bool", isinstance(got, bool))
        h.ensure("is_rotation-iff-cyclic-shift", IFF(got, _is_shift(a, b)))
        h.ensure("arguments-framed", la == list(a) and lb == list(b) and all(x is y for x, y in zip(la, a)))
        h.ensure("shorter-second-argument-is-not-a-rotation", FollowPath.is_rotation(list(a), list(b[:-1])) is False)
    return _


for _n, _tier in ((1, "quick"), (2, "quick"), (3, "quick"), (4, "quick"), (5, "thorough")):
    _mk_is_rotation(_n, _tier)


@proof("C05.is-rotation-needs-distinct-labels", "C05", funcs=["shape.FollowPath.is_rotation"], props=["C05"], expect="refuted",
       note="without the no-repeated-label precondition the contract is false (first-match rotation): must be refuted; "
            "pins that the precondition is needed, i.e. not vacuous")
def _is_rotation_canary(h):
    a, b = _pairs(h, "a", 3), _pairs(h, "b", 3)
    got = FollowPath.is_rotation(list(a), list(b))
    h.ensure("is_rotation-iff-cyclic-shift", IFF(got, _is_shift(a, b)))


def _mk_filter_rotations(lens, tier):
    tag = "+".join(map(str, lens))

    @proof(f"C05.filter-rotations[{tag}]", "C05", funcs=["shape.FollowPath.filter_rotations", "shape.FollowPath.is_rotation"],
           props=["C05", "C01", "C06"], tier=tier, max_paths=20000)
    def _(h):
        """for every list of cycles of the given lengths (arbitrary integer labels, no label repeated inside a cycle):
        the real `filter_rotations` returns a sub-sequence of its input, in order, made of the very same objects;
        a cycle is kept iff no earlier cycle of the input is a cyclic shift of it (so exactly one representative per
        class, the first one); the input is not modified."""
        cycles = [_pairs(h, f"c{k}_", n) for k, n in enumerate(lens)]
        for c in cycles:
            h.assume(_distinct(c))
        matrix = [tuple(c) for c in cycles]
        before = list(matrix)
        out = FollowPath.filter_rotations(matrix)
        h.ensure("returns-a-tuple", isinstance(out, tuple))
        pos = []
        ok = True
        start = 0
        for line in out:  # sub-sequence by identity
            idx = next((i for i in range(start, len(matrix)) if matrix[i] is line), None)
            if idx is None:
                ok = False
                break
            pos.append(idx)
            start = idx + 1
        h.ensure("result-is-an-ordered-subsequence-of-the-same-objects", ok)
        if ok:
            for k, c in enumerate(cycles):
                earlier = [cycles[i] for i in range(k) if len(cycles[i]) == len(c)]
                dup = OR(*[_is_shift(e, c) for e in earlier]) if earlier else False
                h.ensure(f"cycle-{k}-kept-iff-no-earlier-cyclic-shift", IFF(k in pos, NOT(dup)))
        h.ensure("input-framed", matrix == before and all(x is y for x, y in zip(matrix, before)))
    return _


for _lens, _tier in (((2, 2), "quick"), ((3, 3), "quick"), ((2, 3, 2), "quick"), ((3, 3, 3), "quick"), ((4, 4), "quick"),
                     ((2, 3, 2, 3), "thorough")):
    _mk_filter_rotations(_lens, _tier)
