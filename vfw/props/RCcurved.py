"""Bounded stand-in on curved / general inputs: membership with lune points (C02), operators on curved operands
(C01, C05), curved intersections (C14), projection / winding kernel / split (C18, C15), similarity maps (C12).
Exact oracles from vfw.oracle (Sturm root isolation); always reported as bounded."""
from __future__ import annotations

import math
import os
import random
from fractions import Fraction

import numpy as np

from shapepy.curve import IntegratePlanar, Math, PlanarCurve, Projection
from shapepy.jordancurve import IntegrateJordan, JordanCurve
from shapepy.polygon import Point2D
from shapepy.primitive import Primitive
from shapepy.shape import (ConnectedShape, DefinedShape, DisjointShape, EmptyShape, IntegrateShape, SimpleShape, WholeShape)

from .. import oracle, zoo
from ..harness import OpTimeout, bounded, watchdog
from ..oracle import Desc
from .rc_common import OPS, desc_of, exact, lib_curve, structure, well_formed


def _seed():
    return int(os.environ.get("VERIF_SEED", "0") or 0)


def mk_simple(curve, typ="frac"):
    conv = (lambda v: v) if typ == "frac" else float
    return SimpleShape(JordanCurve.from_ctrlpoints([[(conv(x), conv(y)) for x, y in seg] for seg in curve]))


def bbox(curves, pad=1):
    xs = [float(p[0]) for c in curves for s in c for p in s]
    ys = [float(p[1]) for c in curves for s in c for p in s]
    return (math.floor(min(xs)) - pad, math.floor(min(ys)) - pad), (math.ceil(max(xs)) + pad, math.ceil(max(ys)) + pad)


def chord_polygon(curve):
    """the polyline the library's winding number actually integrates: per segment, chords between eval at
    closed_linspace(npts) (npts = degree + 1)"""
    out = []
    for ctrl in curve:
        n = len(ctrl)
        ts = [Fraction(i, n - 1) for i in range(n)]
        pts = []
        for t in ts:
            xs = oracle._bern_to_mono([c[0] for c in ctrl])
            ys = oracle._bern_to_mono([c[1] for c in ctrl])
            pts.append((oracle._peval(xs, t), oracle._peval(ys, t)))
        for a, b in zip(pts[:-1], pts[1:]):
            out.append([a, b])
    return out


def lune_points(curve, rnd, n):
    """points between the chord polyline and the arc of curved segments (where chord sampling misclassifies)"""
    out = []
    curved = [c for c in curve if len(c) > 2]
    for _ in range(n):
        if not curved:
            break
        ctrl = rnd.choice(curved)
        k = len(ctrl)
        i = rnd.randrange(k - 1)
        t0, t1 = Fraction(i, k - 1), Fraction(i + 1, k - 1)
        t = t0 + (t1 - t0) * Fraction(rnd.randint(30, 70), 100)
        xs = oracle._bern_to_mono([c[0] for c in ctrl])
        ys = oracle._bern_to_mono([c[1] for c in ctrl])
        on_arc = (oracle._peval(xs, t), oracle._peval(ys, t))
        a = (oracle._peval(xs, t0), oracle._peval(ys, t0))
        b = (oracle._peval(xs, t1), oracle._peval(ys, t1))
        lam = (t - t0) / (t1 - t0)
        on_chord = (a[0] + lam * (b[0] - a[0]), a[1] + lam * (b[1] - a[1]))
        mu = Fraction(rnd.randint(30, 70), 100)
        out.append((on_chord[0] + mu * (on_arc[0] - on_chord[0]) + Fraction(1, 7919), on_chord[1] + mu * (on_arc[1] - on_chord[1]) + Fraction(1, 7907)))
    return out


@bounded("C02.rc-curved-membership", "C02", funcs=["shape.SimpleShape._contains_point", "jordancurve.IntegrateJordan.winding_number", "curve.IntegratePlanar.winding_number",
                                                   "curve.IntegratePlanar.winding_number_linear", "curve.PlanarCurve.__contains__", "curve.Projection.point_on_curve"],
         props=["C02", "C18"], bound="curved simple shapes (quadratic/cubic blobs, mixed degrees, both orientations, Fraction and float) x generic rational points (seeded), points in the chord-arc lunes, far points, exact vertex / on-curve points", timeout=900)
def _c02_curved(h):
    rnd = random.Random(_seed() * 31 + 5)
    npts = 120 if h.tier == "quick" else 400
    for name, curve in zoo.curved_simple(h.tier):
        truth = Desc("simple", curve)
        chord = Desc("simple", chord_polygon(curve))
        for typ in ("frac", "float"):
            S = mk_simple(curve, typ)
            box = bbox([curve])
            pts = zoo.generic_points(rnd, box, npts) + lune_points(curve, rnd, npts // 3) + [(Fraction(10**6) + Fraction(1, 7), Fraction(1, 11)), (Fraction(-10**5), Fraction(10**5) + Fraction(1, 3))]
            for p in pts:
                t = truth.contains(p)
                if t is None or oracle.dist2_to_curve_lower_bound(curve, p, 32) < 1e-10:
                    continue
                # (library queried with float points: with Fraction points the Newton projection runs in exact
                #  rational arithmetic whose denominators explode -- 50 s and more per query; observation in DESIGN 6)
                lp = (float(p[0]), float(p[1]))
                try:
                    got = lp in S
                    got_open = S.contains_point(lp, False)
                except Exception as e:  # noqa: BLE001
                    h.ensure("membership-does-not-raise", False, detail=f"{name} {typ} {lp}: {type(e).__name__}: {e}")
                    continue
                c = chord.contains(p)
                in_lune = c is not None and c != t
                h.case((name, typ, bool(t), in_lune), True)
                if got == t and got_open == t:
                    continue
                on_chord = c is None  # undecidable for the chord polygon with both rays: the point lies (within 1e-7) on a chord
                if (in_lune and got == c and got_open == c) or on_chord:
                    # mechanism-pinned known finding: the library integrates the chord polyline (degree+1 nodes); the
                    # point is >= 1e-5 from the true curve, so only the chord polygon explains the answer
                    h.finding("chord-sampling-lune", f"{name} ({typ}): point {tuple(map(float, p))} truth {t}, library {got}; chord polygon: {'on a chord' if on_chord else c}")
                else:
                    h.ensure("interior-exterior-classified-correctly", False, detail=f"{name} {typ}: point {tuple(map(float, p))} truth {t}, `in` {got}, open {got_open}, chord-polygon {c}")
            # boundary rule: points exactly on the curve (vertices and mid parameters, rational data)
            for ctrl in curve:
                for t in (Fraction(0), Fraction(1, 2), Fraction(1, 3)):
                    xs = oracle._bern_to_mono([c_[0] for c_ in ctrl])
                    ys = oracle._bern_to_mono([c_[1] for c_ in ctrl])
                    p = (oracle._peval(xs, t), oracle._peval(ys, t))
                    lp = (float(p[0]), float(p[1]))  # (never Fraction points on curved shapes: exact-rational Newton)
                    try:
                        a, b, c2 = (lp in S), S.contains_point(lp, True), S.contains_point(lp, False)
                    except Exception as e:  # noqa: BLE001
                        h.ensure("boundary-membership-does-not-raise", False, detail=f"{name} {typ} {lp}: {type(e).__name__}")
                        continue
                    h.ensure("boundary-point-contained-iff-flag", a is True and b is True and c2 is False, detail=f"{name} {typ}: on-curve point {tuple(map(float, p))} (t={t}): in={a}, closed={b}, open={c2}")
    h.sample(dict(shape="blob2", point="(1.7, 1.7) lune", note="see findings"))


def _chord_desc(d):
    if d.kind == "simple":
        return Desc("simple", chord_polygon(d.curve))
    if d.kind in ("all", "any"):
        return Desc(d.kind, parts=[_chord_desc(q) for q in d.parts])
    return d


@bounded("C02.rc-curved-composites", "C02", funcs=["shape.ConnectedShape._contains_point", "shape.DisjointShape._contains_point", "shape.SimpleShape._contains_point"], props=["C02"],
         bound="directly constructed curved composites (blob with a curved hole, two disjoint blobs, blob with hole + island, complement of a blob with hole; float control points) x generic points + lune points; truth by exact winding numbers on the description", timeout=900)
def _c02_composites(h):
    rnd = random.Random(_seed() * 37 + 6)
    big, hole, island, far = zoo.blob2(0, 0, 4), zoo.rev(zoo.blob3(0, 0, 2)), zoo.blob2(0, 0, Fraction(1, 2)), zoo.blob3(9, 1, 2)
    S = lambda c: mk_simple(c, "float")
    cases = [
        ("blob-with-hole", lambda: ConnectedShape([S(big), S(hole)]), Desc("all", parts=[Desc("simple", big), Desc("simple", hole)]), [big, hole]),
        ("two-blobs", lambda: DisjointShape([S(big), S(far)]), Desc("any", parts=[Desc("simple", big), Desc("simple", far)]), [big, far]),
        ("hole+island", lambda: DisjointShape([ConnectedShape([S(big), S(hole)]), S(island)]), Desc("any", parts=[Desc("all", parts=[Desc("simple", big), Desc("simple", hole)]), Desc("simple", island)]), [big, hole, island]),
        ("complement-of-holed", lambda: DisjointShape([S(zoo.rev(big)), S(zoo.rev(hole))]), Desc("any", parts=[Desc("simple", zoo.rev(big)), Desc("simple", zoo.rev(hole))]), [big, hole]),
    ]
    npts = 150 if h.tier == "quick" else 600
    for name, mk, truth, curves in cases:
        shape = mk()
        chord = _chord_desc(truth)
        box = bbox(curves)
        pts = zoo.generic_points(rnd, box, npts)
        for c in curves:
            pts += lune_points(c, rnd, npts // 6)
        for p in pts:
            t = truth.contains(p)
            if t is None or min(oracle.dist2_to_curve_lower_bound(c, p, 24) for c in curves) < 1e-10:
                continue
            lp = (float(p[0]), float(p[1]))
            try:
                got, got_open = (lp in shape), shape.contains_point(lp, False)
            except Exception as e:  # noqa: BLE001
                h.ensure("membership-does-not-raise", False, detail=f"{name} {lp}: {type(e).__name__}: {e}")
                continue
            cc = chord.contains(p)
            h.case((name, bool(t), cc is not None and cc != t), True)
            if got == t and got_open == t:
                continue
            if (cc is not None and cc != t and got == cc and got_open == cc) or cc is None:
                h.finding("chord-sampling-lune", f"{name}: point {lp} truth {t}, library {got} = membership in the chord polygons")
            else:
                h.ensure("composite-membership-is-all/any-of-true-membership", False, detail=f"{name}: point {lp} truth {t}, `in` {got}, open {got_open}, chord {cc}")
        dl = desc_of(shape)
        bad = [p for p in pts[:60] if truth.contains(p) is not None and dl.contains(p) is not None and truth.contains(p) != dl.contains(p)]
        h.ensure("directly-constructed-composite-denotes-intersection/union", not bad, detail=f"{name}: {bad[:2]}")


@bounded("C01.rc-curved", "C01", funcs=["shape.FollowPath.*", "curve.Intersection.bezier_and_bezier", "jordancurve.JordanCurve.split"], props=["C01", "C05", "C06"],
         bound="pairs of curved simple regions (quadratic / cubic / mixed, nested, disjoint, 2-4 transversal crossings; Fraction and float) x ops | & - ^ ~ x generic points at distance > 1e-3 from all boundaries; measures to 1e-5", timeout=1200)
def _c01_curved(h):
    rnd = random.Random(_seed() * 17 + 3)
    npts = 60 if h.tier == "quick" else 300
    for name, ca, cb in zoo.curved_pairs(h.tier):
        da, db = Desc("simple", ca), Desc("simple", cb)
        box = bbox([ca, cb])
        pts = [p for p in zoo.generic_points(rnd, box, npts) if min(oracle.dist2_to_curve_lower_bound(ca, p, 48), oracle.dist2_to_curve_lower_bound(cb, p, 48)) > 1e-4]
        # float control points only: with Fraction control points the Newton-based crossing search and projection run
        # in exact rational arithmetic and a single operator call takes minutes (observation, DESIGN 6)
        for typ in ("float",):
            for opname, (lib_op, _) in OPS.items():
                A, B = mk_simple(ca, typ), mk_simple(cb, typ)
                where = f"{name} op={opname} type={typ}"
                ensure = h.ensure
                try:
                    with watchdog(60):
                        R = lib_op(A, B)
                except OpTimeout as e:
                    h.ensure("operator-returns-on-transversal-operands", False, detail=f"{where}: {e}")
                    continue
                except Exception as e:  # noqa: BLE001
                    if reduced_piece(A, ca) or reduced_piece(B, cb):
                        h.finding("degree-reduced-split-piece", f"{where}: {type(e).__name__} after a split piece was degree-reduced (its end point moves by ~1e-6, the pieces no longer chain)")
                    else:
                        h.ensure("operator-does-not-raise", False, detail=f"{where}: {type(e).__name__}: {e}")
                    continue
                if reduced_piece(A, ca) or reduced_piece(B, cb):
                    # mechanism-pinned known finding: failures of this case are attributed to the degree reduction
                    def ensure(clause, cond, detail=None, _w=where):
                        if not cond:
                            h.finding("degree-reduced-split-piece", f"{_w}: {clause}: {detail}")
                h.case((name, opname, typ, type(R).__name__), True)
                dR = desc_of(R)
                sem = {"or": lambda x, y: x or y, "and": lambda x, y: x and y, "sub": lambda x, y: x and not y, "xor": lambda x, y: x != y}[opname]
                for p in pts:
                    ta, tb = da.contains(p), db.contains(p)
                    if ta is None or tb is None:
                        continue
                    t = sem(ta, tb)
                    g = dR.contains(p)
                    if g is None:
                        continue
                    ensure("result-region-is-set-theoretic-result", g == t, detail=f"{where}: point {tuple(map(float, p))} truth {t} region-of-result {g}")
                ensure("result-well-formed", not well_formed(R), detail=f"{where}: {well_formed(R)[:2]}")
                # measures: inclusion-exclusion within 1e-5 relative
                ma = {k: float(oracle.curve_moment(ca, *k)) for k in ((0, 0), (1, 0), (0, 1))}
                if opname in ("or", "and"):
                    U, I = (R, None) if opname == "or" else (None, R)
                    try:
                        other = (A & B) if opname == "or" else (A | B)
                    except Exception as e:  # noqa: BLE001
                        continue
                    U, I = (R, other) if opname == "or" else (other, R)
                    A0, B0 = mk_simple(ca, typ), mk_simple(cb, typ)
                    for k in ((0, 0), (1, 0), (0, 1), (2, 0), (1, 1), (0, 2)):
                        m = lambda s: float(IntegrateShape.polynomial(s, *k)) if isinstance(s, DefinedShape) else 0.0
                        lhs, rhs = m(U) + m(I), m(A0) + m(B0)  # identity between library values (C05)
                        okm = abs(lhs - rhs) <= 1e-5 * (1 + abs(rhs))
                        if not okm:
                            degs = {len(sg_) - 1 for cv_ in (ca, cb) for sg_ in cv_}
                            nd = lambda d_: 3 + (k[0] + 1) + k[1] + d_
                            inexact = [d_ for d_ in degs if d_ * (k[0] + 1 + k[1]) + d_ - 1 > (nd(d_) if nd(d_) % 2 else nd(d_) - 1)]
                            if inexact:
                                # mechanism-pinned: the node rule 3+a+b+degree is not exact for this degree/moment, and the
                                # quadrature error on whole segments differs from the error on their split pieces
                                h.finding("quadrature-inexact-curved-moment", f"{where}: moment{k} on segments of degree {inexact}: m(A|B)+m(A&B)={lhs} vs m(A)+m(B)={rhs}")
                                continue
                        ensure("inclusion-exclusion-of-moments", okm, detail=f"{where}: moment{k}: m(A|B)+m(A&B)={lhs} vs m(A)+m(B)={rhs}")
                        if k == (0, 0):
                            ex = float(oracle.curve_moment(ca, *k)) + float(oracle.curve_moment(cb, *k))
                            ensure("areas-agree-with-exact-integrals", abs(lhs - ex) <= 1e-9 * (1 + abs(ex)), detail=f"{where}: area(A|B)+area(A&B)={lhs}, exact {ex}")
            # complement
            A = mk_simple(ca, "float")
            inv = ~A
            dI = desc_of(inv)
            for p in pts[:30]:
                ta, g = da.contains(p), dI.contains(p)
                if ta is not None and g is not None:
                    h.ensure("complement-is-set-complement", g == (not ta), detail=f"{name}: ~A at {tuple(map(float, p))}")
            h.ensure("complement-negates-area", abs(float(IntegrateShape.area(inv)) + float(oracle.curve_area(ca))) <= 1e-9 * (1 + abs(float(oracle.curve_area(ca)))), detail=name)


def reduced_piece(shape, curve):
    """mechanism test: did splitting + clean() degree-reduce a piece of this operand (a segment whose degree is
    lower than every original segment it can come from)?"""
    orig = sorted({len(c) - 1 for c in curve})
    for jd in shape.jordans:
        for sg in jd.segments:
            if sg.degree < min(d for d in orig if d >= sg.degree) if any(d >= sg.degree for d in orig) and sg.degree not in orig else False:
                return True
    return False


def _resultant_crossings(ca_seg, cb_seg, tol=1e-7):
    """reference crossings of two Bezier segments by dense subdivision + bisection in floats (degree <= 3); used
    only to *count* transversal crossings away from end points"""
    def ev(ctrl, t):
        n = len(ctrl) - 1
        x = sum(math.comb(n, i) * t**i * (1 - t) ** (n - i) * float(c[0]) for i, c in enumerate(ctrl))
        y = sum(math.comb(n, i) * t**i * (1 - t) ** (n - i) * float(c[1]) for i, c in enumerate(ctrl))
        return x, y

    N = 64
    pa = [ev(ca_seg, i / N) for i in range(N + 1)]
    pb = [ev(cb_seg, i / N) for i in range(N + 1)]
    found = []
    for i in range(N):
        for j in range(N):
            a0, a1, b0, b1 = pa[i], pa[i + 1], pb[j], pb[j + 1]
            d = (a1[0] - a0[0]) * (b1[1] - b0[1]) - (a1[1] - a0[1]) * (b1[0] - b0[0])
            if abs(d) < 1e-14:
                continue
            u = ((b0[0] - a0[0]) * (b1[1] - b0[1]) - (b0[1] - a0[1]) * (b1[0] - b0[0])) / d
            v = ((b0[0] - a0[0]) * (a1[1] - a0[1]) - (b0[1] - a0[1]) * (a1[0] - a0[0])) / d
            if 0 <= u < 1 and 0 <= v < 1:
                found.append(((i + u) / N, (j + v) / N))
    return found


@bounded("C14.rc-curved", "C14", funcs=["curve.PlanarCurve.__and__", "curve.Intersection.bezier_and_bezier", "curve.Intersection.filter_distance", "curve.Intersection.filter_parameters",
                                         "jordancurve.JordanCurve.intersection"],
         bound="curved pairs of the zoo (degree 1..3 mixes): every reported row is a common point within 1e-6, indices/parameters in range, number of transversal crossings found = reference count (dense subdivision) and even, swap symmetry, flags", timeout=900)
def _c14_curved(h):
    for name, ca, cb in zoo.curved_pairs(h.tier):
        for typ in ("frac", "float"):
            conv = (lambda v: v) if typ == "frac" else float
            JA = JordanCurve.from_ctrlpoints([[(conv(x), conv(y)) for x, y in seg] for seg in ca])
            JB = JordanCurve.from_ctrlpoints([[(conv(x), conv(y)) for x, y in seg] for seg in cb])
            where = f"{name} type={typ}"
            try:
                with watchdog(60):
                    rows = JA.intersection(JB)
                    rows_sw = JB.intersection(JA)
                    rows_and = JA & JB
                    rows_noeq = JA.intersection(JB, equal_beziers=False)
                    rows_noend = JA.intersection(JB, end_points=False)
            except Exception as e:  # noqa: BLE001
                h.ensure("intersection-does-not-raise", False, detail=f"{where}: {type(e).__name__}: {e}")
                continue
            h.case((name, typ, len(rows)), True)
            ok_rows = True
            for (a, b, u, v) in rows:
                if not (isinstance(a, int) and isinstance(b, int) and 0 <= a < len(JA.segments) and 0 <= b < len(JB.segments)):
                    ok_rows = False
                    continue
                if u is None or v is None:
                    h.ensure("none-marks-identical-segments-only", JA.segments[a] == JB.segments[b], detail=f"{where}: row {(a, b, u, v)}")
                    continue
                if not (0 <= u <= 1 and 0 <= v <= 1):
                    ok_rows = False
                    continue
                pa, pb = JA.segments[a](u), JB.segments[b](v)
                d = math.hypot(float(pa[0] - pb[0]), float(pa[1] - pb[1]))
                h.ensure("reported-row-is-a-common-point", d < 2e-6, detail=f"{where}: row {(a, b, float(u), float(v))} distance {d}")
            h.ensure("indices-and-parameters-in-range", ok_rows, detail=f"{where}: {rows}")
            h.ensure("sorted", list(rows) == sorted(rows, key=lambda r: (r[0], r[1], -1 if r[2] is None else r[2], -1 if r[3] is None else r[3])), detail=where)
            # completeness against the reference count
            ref = 0
            for i, sa in enumerate(ca):
                for j, sb in enumerate(cb):
                    ref += len([1 for (u, v) in _resultant_crossings(sa, sb) if 1e-3 < u < 1 - 1e-3 and 1e-3 < v < 1 - 1e-3])
            interior = [r for r in rows if r[2] is not None and 1e-3 < r[2] < 1 - 1e-3 and 1e-3 < r[3] < 1 - 1e-3]
            h.ensure("every-transversal-crossing-appears-once", len(interior) == ref, detail=f"{where}: library {len(interior)} interior crossings, reference {ref}: {[(r[0], r[1], float(r[2]), float(r[3])) for r in interior]}")
            h.ensure("number-of-crossings-is-even", len([r for r in rows if r[2] is not None]) % 2 == 0 or any(r[2] in (0, 1) or r[3] in (0, 1) for r in rows if r[2] is not None), detail=f"{where}: {len(rows)} rows")
            close = lambda x, y: (x is None and y is None) or (x is not None and y is not None and abs(float(x) - float(y)) < 1e-6)
            sw = sorted((b, a, v, u) for (a, b, u, v) in rows_sw)
            h.ensure("swapping-operands-swaps-roles", len(sw) == len(rows) and all(r[0] == s[0] and r[1] == s[1] and close(r[2], s[2]) and close(r[3], s[3]) for r, s in zip(sorted(rows), sw)), detail=f"{where}: {rows} vs swapped {rows_sw}")
            h.ensure("equal_beziers-false-removes-exactly-none-rows", list(rows_noeq) == [r for r in rows if r[2] is not None], detail=where)
            isend = lambda r: r[2] is not None and r[2] in (0, 1) and r[3] in (0, 1)
            h.ensure("end_points-false-removes-exactly-end-rows", list(rows_noend) == [r for r in rows if not isend(r)], detail=where)
            h.ensure("and-is-both-flags-false", list(rows_and) == [r for r in rows if r[2] is not None and not isend(r)], detail=where)


@bounded("C18.rc-kernels", "C18", funcs=["curve.Projection.point_on_curve", "curve.Projection.newton_iteration", "curve.PlanarCurve.__contains__", "curve.IntegratePlanar.winding_number",
                                          "curve.IntegratePlanar.winding_number_linear", "curve.PlanarCurve.split", "curve.BezierCurve.clean"], props=["C18", "C02", "C15"],
         bound="seeded random control polygons of degree 1..6 (regular: no cusps/loops by construction for degree <= 3), int/Fraction/float; t on a 1/12 grid; query points off the curve", timeout=900)
def _c18_kernels(h):
    rnd = random.Random(_seed() * 101 + 7)
    ncurves = 6 if h.tier == "quick" else 30
    for d in range(1, 7):
        for k in range(ncurves):
            typ = ("int", "frac", "float")[k % 3]
            pts = []
            x = 0
            for i in range(d + 1):
                x += rnd.randint(1, 4)  # x strictly increasing: a graph-like regular curve without loops
                y = rnd.randint(-5, 5)
                pts.append((x, y) if typ == "int" else (Fraction(x), Fraction(y, rnd.randint(1, 3))) if typ == "frac" else (float(x), y + rnd.random()))
            seg = PlanarCurve(pts)
            ctrl = [(exact(p[0]), exact(p[1])) for p in seg.ctrlpoints]
            h.case((d, typ), True)
            # projection parameters in [0, 1] (contract used by C18.contains-sound)
            # (float query points: exact rational Newton iterations have exploding denominators)
            for q_ in ((float(pts[0][0]) - 1, 7.0), (float(pts[-1][0]) + 2, -3.0), (float(pts[d // 2][0]), 0.5)):
                params = Projection.point_on_curve(q_, seg)
                h.ensure("projection-parameters-in-range", len(params) >= 1 and all(0 <= float(u) <= 1 for u in params), detail=f"deg {d} {typ}: {params}")
            # segment(t) in segment for regular segments
            for i in range(0, 13):
                t = Fraction(i, 12)
                p = seg(t)
                p = (float(p[0]), float(p[1]))
                try:
                    ok = p in seg
                except Exception as e:  # noqa: BLE001
                    ok = f"{type(e).__name__}: {e}"
                if ok is not True:
                    if d >= 4:
                        h.finding("projection-misses-point-on-high-degree-segment", f"degree {d} ({typ}) segment {pts}: segment({t}) in segment is {ok}")
                    else:
                        h.ensure("point-of-regular-segment-is-in-segment", False, detail=f"degree {d} ({typ}) segment {pts}: segment({t}) in segment is {ok}")
            # a point farther than the tolerance is never `in`
            for t in (Fraction(1, 5), Fraction(2, 3)):
                p = seg(t)
                far = (float(p[0]), float(p[1]) + 1e-3)
                if min((float(oracle._peval(oracle._bern_to_mono([c[0] for c in ctrl]), Fraction(j, 400))) - far[0]) ** 2 + (float(oracle._peval(oracle._bern_to_mono([c[1] for c in ctrl]), Fraction(j, 400))) - far[1]) ** 2 for j in range(401)) > 1e-8:
                    h.ensure("far-point-not-in-segment", (far in seg) is False, detail=f"degree {d}: {far}")
            # winding contribution = subtended angle (chord-sampled; exact for lines)
            c0 = (float(pts[0][0]) - 3.3, 11.7)
            w = float(IntegratePlanar.winding_number(seg, c0))
            a0 = math.atan2(float(ctrl[0][1]) - c0[1], float(ctrl[0][0]) - c0[0])
            a1 = math.atan2(float(ctrl[-1][1]) - c0[1], float(ctrl[-1][0]) - c0[0])
            dw = (a1 - a0) / math.tau
            dw = dw - round(dw)
            h.ensure("winding-contribution-is-subtended-angle-for-far-centre", abs(w - dw) < 1e-9, detail=f"degree {d}: {w} vs {dw}")
            # pynurbs split agrees with de Casteljau (dependency contract used by the symbolic-node proofs)
            from .. import spec

            for t in (Fraction(1, 3), Fraction(5, 8)):
                pieces = seg.split((t if typ != "float" else float(t),))
                left, right = spec.de_casteljau_split(ctrl, t)
                got = [[(exact(p[0]), exact(p[1])) for p in pc.ctrlpoints] for pc in pieces]
                okk = len(got) == 2 and all(abs(float(a[0] - b[0])) < 1e-9 and abs(float(a[1] - b[1])) < 1e-9 for g, w_ in zip(got, (left, right)) for a, b in zip(g, w_))
                if typ != "float":
                    okk = okk and got == [left, right]
                h.ensure("pynurbs-split-is-de-casteljau", okk, detail=f"degree {d} {typ} t={t}")
    h.sample(dict(degree=3, check="segment(t) in segment, t = k/12"))


@bounded("C12.rc-similarity", "C12", funcs=["shape.DefinedShape.__or__", "shape.DefinedShape.__and__", "curve.PlanarCurve.__and__", "curve.BezierCurve.clean", "polygon.Point2D.__eq__"],
         props=["C12"], bound="polygon and curved pairs x similarity maps (translations to 1e6, rotations by 0.3 / 1.1 / 2.5 rad, scales 1e-3 .. 1e5): kind, area ratio k^2, membership of transformed sample points at relative distance > 1e-3 from boundaries", timeout=1200)
def _c12_similarity(h):
    rnd = random.Random(_seed() * 53 + 11)
    maps = [(1, 0.0, (0, 0)), (1, 0.0, (1e6, -1e6)), (1, 1.1, (3, 4)), (1e-3, 0.0, (0, 0)), (1e-2, 0.3, (1, 1)), (1e3, 2.5, (-5, 2)), (1e5, 0.0, (0, 0)), (20, 0.0, (0, 0)), (0.05, 0.0, (0, 0))]
    if h.tier == "quick":
        maps = maps[:7]
    pairs = zoo.curved_pairs(h.tier)[:4] + [("tri x tri", zoo.poly((0, 0), (6, 0), (3, 5)), zoo.poly((0, 3), (3, -2), (6, 3)))]
    for name, ca, cb in pairs:
        box = bbox([ca, cb])
        pts = [p for p in zoo.generic_points(rnd, box, 40) if min(oracle.dist2_to_curve_lower_bound(ca, p, 48), oracle.dist2_to_curve_lower_bound(cb, p, 48)) > 1e-2]
        base = {}
        for opname, (lib_op, _) in OPS.items():
            try:
                R0 = lib_op(mk_simple(ca, "float"), mk_simple(cb, "float"))
            except Exception as e:  # noqa: BLE001
                continue
            base[opname] = (structure(R0), float(R0) if isinstance(R0, DefinedShape) else 0.0, [p in R0 for p in [(float(x), float(y)) for x, y in pts]])
        for (k, ang, d) in maps:
            c, s = math.cos(ang), math.sin(ang)
            T = lambda p: (k * (c * float(p[0]) - s * float(p[1])) + d[0], k * (s * float(p[0]) + c * float(p[1])) + d[1])
            for opname, (lib_op, _) in OPS.items():
                if opname not in base:
                    continue
                A = SimpleShape(JordanCurve.from_ctrlpoints([[T(p) for p in seg] for seg in ca]))
                B = SimpleShape(JordanCurve.from_ctrlpoints([[T(p) for p in seg] for seg in cb]))
                where = f"{name} op={opname} map=(scale {k}, angle {ang}, shift {d})"
                try:
                    with watchdog(60):
                        R = lib_op(A, B)
                except Exception as e:  # noqa: BLE001
                    h.finding("similarity-dependence-absolute-tolerances", f"{where}: {type(e).__name__}: {e} (untransformed operands: fine)") if k != 1 else h.ensure("operator-does-not-raise-after-a-rigid-motion", False, detail=f"{where}: {type(e).__name__}: {e}")
                    continue
                h.case((name, opname, k, ang != 0, d != (0, 0)), True)
                st0, a0, mem0 = base[opname]
                a1 = float(R) if isinstance(R, DefinedShape) else 0.0
                mem1 = [T(p) in R for p in pts]
                # crossing points are only located within the library's absolute 1e-6 distance tolerance; far from the
                # origin float spacing adds to it: areas are compared at 1e-4 there, 1e-5 otherwise
                atol = 1e-4 if max(abs(d[0]), abs(d[1])) > 1e3 else 1e-5
                same = structure(R)[0:2] == st0[0:2] and abs(a1 - k * k * a0) <= atol * (1e-12 + k * k * abs(a0)) and mem1 == mem0
                if not same:
                    msg = f"{where}: kind/components {st0[0:2]} -> {structure(R)[0:2]}, area/k^2 {a0} -> {a1 / (k * k)}, membership changes {sum(x != y for x, y in zip(mem0, mem1))}"
                    if k != 1:
                        # mechanism: absolute tolerances (1e-6 / 1e-9) in crossing search, point equality, degree reduction
                        # act on a *rescaled* drawing; rigid motions (k == 1) are not excused: the unchanged tree is
                        # translation and rotation invariant on this family
                        h.finding("similarity-dependence-absolute-tolerances", msg)
                    else:
                        h.ensure("result-independent-of-rigid-motion", False, detail=msg)
    # the property's own example
    try:
        r1 = Primitive.circle(0.05) & Primitive.square(0.075, (0.05, 0))
        r2 = Primitive.circle(1.0) & Primitive.square(1.5, (1.0, 0))
        if structure(r1)[0:2] != structure(r2)[0:2] or abs(float(r1) * 400 - float(r2)) > 1e-5 * float(r2):
            h.finding("similarity-dependence-absolute-tolerances", f"circle(0.05) & square(0.075,(0.05,0)) is {structure(r1)} of area {float(r1)}; the x20 drawing gives {structure(r2)} of area {float(r2)} = 400 x {float(r2) / 400}")
    except Exception as e:  # noqa: BLE001
        h.finding("similarity-dependence-absolute-tolerances", f"circle(0.05) & square(0.075,(0.05,0)) raised {type(e).__name__}")
