"""Bounded stand-in, remaining families: transformation histories (C09), live-vs-copy and process determinism (C10),
fault injection at call boundaries (C11), curve equality (C07), constructors (C17), clean (C15), real matplotlib (C20)."""
from __future__ import annotations

import copy as _copy
import math
import os
import random
import subprocess
import sys
from fractions import Fraction

import numpy as np

from shapepy.curve import PlanarCurve
from shapepy.jordancurve import IntegrateJordan, JordanCurve
from shapepy.polygon import Point2D
from shapepy.primitive import Primitive
from shapepy.shape import (BaseShape, ConnectedShape, DefinedShape, DisjointShape, EmptyShape, IntegrateShape, SimpleShape, WholeShape)

from .. import oracle, zoo
from ..harness import OpTimeout, bounded, watchdog
from ..oracle import Desc
from .rc_common import OPS, desc_of, exact, lib_curve, structure, to_shape, truth_structure, well_formed
from .RCcurved import bbox, mk_simple


def _seed():
    return int(os.environ.get("VERIF_SEED", "0") or 0)


def _shapes(tier, typ="frac"):
    out = []
    for nm in ("square2", "L", "ring", "two", "ring+island") + (("U", "three", "ring2holes") if tier != "quick" else ()):
        reg = zoo.region(nm, 0)
        out.append((nm, to_shape(reg, typ), reg))
        out.append(("~" + nm, to_shape(~reg, typ), ~reg))
    return out


def _region_signature(shape, pts):
    """oracle-side signature of the region a library object denotes: exact area + membership of sample points"""
    d = desc_of(shape)
    area = sum(oracle.curve_area(c) for c in d.curves()) if isinstance(shape, DefinedShape) else 0
    return area, tuple(d.contains(p) for p in pts)


# ------------------------------------------------------------------ C09

@bounded("C09.rc-histories", "C09", funcs=["shape.DefinedShape.move", "shape.DefinedShape.scale", "shape.DefinedShape.rotate"], props=["C09", "C12"],
         bound="grid-zoo shapes of all kinds (holes, several components, unbounded) + curved blobs x seeded random sequences of 1..4 transformations: same object returned, T(p) in T(S) iff p in S (oracle on the transformed boundary and library `in`), area = |det| area, exactness under move/scale, inverse sequence restores ==", timeout=900)
def _c09_hist(h):
    rnd = random.Random(_seed() * 13 + 1)
    cases = [(nm, s, [(x, y) for x, y in reg.cell_centres()][::7]) for nm, s, reg in _shapes(h.tier)]
    cases += [("blob3", mk_simple(zoo.blob3(), "float"), zoo.generic_points(rnd, ((-3, -3), (3, 3)), 25)), ("mixed123", mk_simple(zoo.mixed123(), "float"), zoo.generic_points(rnd, ((-3, -1), (7, 6)), 25))]
    # two *distinct* control point objects with equal coordinates (doubled inner control point of a cubic)
    drop = [[(Fraction(6), Fraction(0)), (Fraction(3), Fraction(4)), (Fraction(3), Fraction(4)), (Fraction(0), Fraction(0))], [(Fraction(0), Fraction(0)), (Fraction(6), Fraction(0))]]
    cases += [("drop", mk_simple(drop, "float"), zoo.generic_points(rnd, ((-1, -1), (7, 4)), 25))]
    for nm, S, pts in cases:
        d0 = desc_of(S)
        truth0 = [d0.contains(p) for p in pts]
        lib0 = [(float(p[0]), float(p[1])) in S for p in pts]  # what the library said before the transformation
        area0 = IntegrateShape.area(S)
        for rep in range(2 if h.tier == "quick" else 6):
            T = _copy.deepcopy(S)
            seq = []
            M = [[Fraction(1), Fraction(0)], [Fraction(0), Fraction(1)]]
            v = [Fraction(0), Fraction(0)]
            exact_ok = nm not in ("blob3", "mixed123", "drop")
            for _ in range(rnd.randint(1, 4)):
                kind = rnd.choice(["move", "scale", "rotate"] if rep % 2 else ["move", "scale"])
                if kind == "move":
                    dx, dy = Fraction(rnd.randint(-9, 9), rnd.randint(1, 4)), Fraction(rnd.randint(-9, 9), rnd.randint(1, 4))
                    r = T.move(dx, dy)
                    v = [v[0] + dx, v[1] + dy]
                    seq.append(("move", dx, dy))
                elif kind == "scale":
                    sx, sy = Fraction(rnd.randint(1, 7), rnd.randint(1, 4)), Fraction(rnd.randint(1, 7), rnd.randint(1, 4))
                    r = T.scale(sx, sy)
                    M = [[M[0][0] * sx, M[0][1] * sx], [M[1][0] * sy, M[1][1] * sy]]
                    v = [v[0] * sx, v[1] * sy]
                    seq.append(("scale", sx, sy))
                else:
                    ang = rnd.choice([30, 45, 90, 123.4])
                    r = T.rotate(ang, degrees=True)
                    c, s_ = Fraction(math.cos(math.radians(ang))), Fraction(math.sin(math.radians(ang)))
                    M = [[c * M[0][0] - s_ * M[1][0], c * M[0][1] - s_ * M[1][1]], [s_ * M[0][0] + c * M[1][0], s_ * M[0][1] + c * M[1][1]]]
                    v = [c * v[0] - s_ * v[1], s_ * v[0] + c * v[1]]
                    seq.append(("rotate", ang))
                    exact_ok = False
                h.ensure("transformation-returns-the-same-object", r is T, detail=f"{nm} {seq}")
            h.case((nm, tuple(k[0] for k in seq)), True)
            det = M[0][0] * M[1][1] - M[0][1] * M[1][0]
            a1 = IntegrateShape.area(T)
            if exact_ok:
                h.ensure("area-is-det-times-old-area-exactly", a1 == det * area0 and isinstance(a1, (int, Fraction)), detail=f"{nm} {seq}: {a1} vs {det * area0}")
            else:
                h.ensure("area-is-det-times-old-area", abs(float(a1) - float(det * area0)) <= 1e-9 * (1 + abs(float(det * area0))), detail=f"{nm} {seq}: {float(a1)} vs {float(det * area0)}")
            dT = desc_of(T)
            for p, t0, l0 in zip(pts, truth0, lib0):
                if t0 is None:
                    continue
                tp = (M[0][0] * p[0] + M[0][1] * p[1] + v[0], M[1][0] * p[0] + M[1][1] * p[1] + v[1])
                g = dT.contains(tp)
                if g is not None:
                    h.ensure("transformed-region-contains-T(p)-iff-region-contained-p", g == t0, detail=f"{nm} {seq}: p={tuple(map(float, p))}")
                try:
                    lib = (float(tp[0]), float(tp[1])) in T
                    h.ensure("library-membership-equivariant", lib == l0, detail=f"{nm} {seq}: T(p)={tuple(map(float, tp))}: `p in S` was {l0}, `T(p) in T(S)` is {lib} (truth {t0})")
                except Exception as e:  # noqa: BLE001
                    h.ensure("membership-after-transformation-does-not-raise", False, detail=f"{nm} {seq}: {type(e).__name__}")
            h.ensure("still-well-formed", not well_formed(T), detail=f"{nm} {seq}")
            # inverse sequence
            for k in reversed(seq):
                if k[0] == "move":
                    T.move(-k[1], -k[2])
                elif k[0] == "scale":
                    T.scale(1 / k[1], 1 / k[2])
                else:
                    T.rotate(-k[1], degrees=True)
            try:
                eq = T == S
            except Exception as e:  # noqa: BLE001
                eq = f"{type(e).__name__}: {e}"
            h.ensure("inverse-sequence-restores-an-equal-shape", eq is True, detail=f"{nm} {seq}: T==S is {eq}")


# ------------------------------------------------------------------ C10

@bounded("C10.rc-histories", "C10", funcs=["jordancurve.JordanCurve.__float__", "shape.FollowPath.split_two_jordans", "jordancurve.JordanCurve.split"], props=["C10", "C08"],
         bound="grid-zoo pairs x seeded histories of 6..10 steps (queries: area, float(curve), box, containment, ==; transformations; operators with a third shape on the same objects): after every step the live objects answer like fresh deep copies", timeout=900)
def _c10_hist(h):
    rnd = random.Random(_seed() * 29 + 2)
    pairs = zoo.grid_pairs(h.tier, _seed())
    pairs = [p for p in pairs if p[1].fits() and p[2].fits()][:: (9 if h.tier == "quick" else 3)]
    C3 = zoo.region("bar3", 2, (0, 1))

    def answers(S, probe):
        out = []
        ar = IntegrateShape.area(S) if isinstance(S, DefinedShape) else None
        out.append(("area", round(ar, 9) if isinstance(ar, float) else ar))  # (floats: last-bit noise of summation order)
        if isinstance(S, DefinedShape):
            out.append(("float", round(float(S), 9)))
            out.append(("lens", tuple(round(float(j), 9) for j in S.jordans)))
            b = S.box()
            out.append(("box", (float(b.lowpt[0]), float(b.lowpt[1]), float(b.toppt[0]), float(b.toppt[1]))))
        out.append(("in", tuple(p in S for p in probe)))
        return out

    for label, A, B in pairs:
        for typ in ("frac", "float"):
            SA, SB, SC = to_shape(A, typ), to_shape(B, typ), to_shape(C3, typ)
            probe = [(float(x), float(y)) for x, y in (A | B).cell_centres()][::5] if not (A.unbounded or B.unbounded) else [(0.17, 0.23), (1.17, 0.51), (5.3, 5.1)]
            steps = []
            for step in range(rnd.randint(6, 10)):
                act = rnd.choice(["A|B", "A&B", "A-B", "B-A", "A^B", "float", "in", "eq", "scale", "move", "rotate", "A|C", "B in A"])
                steps.append(act)
                try:
                    with watchdog(30):
                        if act in ("A|B", "A&B", "A-B", "B-A", "A^B", "A|C"):
                            x, y = {"A|B": (SA, SB), "A&B": (SA, SB), "A-B": (SA, SB), "B-A": (SB, SA), "A^B": (SA, SB), "A|C": (SA, SC)}[act]
                            op = {"|": lambda u, w: u | w, "&": lambda u, w: u & w, "-": lambda u, w: u - w, "^": lambda u, w: u ^ w}[act[1]]
                            r1 = op(x, y)
                            r2 = op(_copy.deepcopy(x), _copy.deepcopy(y))
                            same = (r1 == r2) if isinstance(r1, DefinedShape) or isinstance(r2, DefinedShape) else (r1 is r2)
                            h.ensure("operator-on-used-objects-equals-operator-on-fresh-copies", same is True, detail=f"{label} {typ} history {steps}")
                        elif act == "float":
                            float(SA), [float(j) for j in SB.jordans] if isinstance(SB, DefinedShape) else None
                        elif act == "in":
                            [p in SA for p in probe[:3]]
                        elif act == "eq":
                            SA == SB
                        elif act == "B in A":
                            SB in SA
                        elif act == "scale" and isinstance(SA, DefinedShape):
                            SA.scale(2, Fraction(3, 2) if typ == "frac" else 1.5)
                            probe = [(2 * x, 1.5 * y) for x, y in probe]
                        elif act == "move" and isinstance(SB, DefinedShape):
                            SB.move(1, 0)
                        elif act == "rotate" and isinstance(SA, DefinedShape) and typ == "float":
                            SA.rotate(90, degrees=True)
                            probe = [(-y, x) for x, y in probe]
                except OpTimeout:
                    h.ensure("step-returns", False, detail=f"{label} {typ} history {steps}")
                    break
                except Exception as e:  # noqa: BLE001
                    # transformed operands may touch non-transversally: only *disagreement with the fresh copy* counts
                    try:
                        {"A|B": lambda: _copy.deepcopy(SA) | _copy.deepcopy(SB)}.get(act, lambda: None)()
                    except Exception:  # noqa: BLE001
                        pass
                    continue
                for nm, S in (("A", SA), ("B", SB)):
                    if not isinstance(S, DefinedShape):
                        continue
                    live, fresh = answers(S, probe), answers(_copy.deepcopy(S), probe)
                    ok = all((a == b) if not isinstance(a[1], float) else True for a, b in zip(live, fresh))
                    h.ensure("live-object-answers-like-fresh-deep-copy", live == fresh, detail=f"{label} {typ} operand {nm} after {steps}: {[(a, b) for a, b in zip(live, fresh) if a != b][:2]}")
            h.case((typ, tuple(sorted(set(steps)))), True)


@bounded("C10.rc-process-determinism", "C10", funcs=["curve.Projection.newton_iteration", "curve.Intersection.bezier_and_bezier", "jordancurve.JordanCurve.__intersection"],
         bound="one fixed script (operators on polygons and curved shapes, intersections, containment) run in fresh processes under PYTHONHASHSEED = 0, 1, 12345 (thorough: 8 seeds) and twice in one process (warm caches): identical printed results", timeout=900)
def _c10_proc(h):
    script = r'''
import warnings; warnings.filterwarnings("ignore")
from fractions import Fraction as F
from shapepy import Primitive, JordanCurve, SimpleShape, IntegrateShape
def run():
    out = []
    a, b = Primitive.square(2), Primitive.square(2, (1, F(1, 3)))
    for r in (a | b, a & b, a - b, a ^ b):
        out.append((type(r).__name__, str(IntegrateShape.area(r)), [str(v) for j in r.jordans for v in j.vertices]))
    c, d = Primitive.circle(1.0, (0, 0), 8), Primitive.circle(1.0, (0.7, 0.2), 8)
    out.append(sorted((x[0], x[1], round(float(x[2]), 9), round(float(x[3]), 9)) for x in c.jordans[0].intersection(d.jordans[0])))
    for r in (c | d, c & d, c - d):
        out.append((type(r).__name__, repr(float(r)), len(r.jordans[0].segments)))
    out.append([(0.3, 0.1) in c, (1.5, 0.2) in (c | d), d in (c | d), c == d])
    blob = SimpleShape(JordanCurve.from_ctrlpoints([[(0, 0), (2, -2), (4, 0)], [(4, 0), (6, 2), (4, 4)], [(4, 4), (2, 6), (0, 4)], [(0, 4), (-2, 2), (0, 0)]]))
    out.append((repr(float(blob & Primitive.square(3, (0, 0)))), repr(float(blob))))
    return out
first = run(); second = run()
print(repr(first)); print(first == second)
'''
    seeds = ["0", "1", "12345"] + (["7", "99", "2024", "31337", "random"] if h.tier != "quick" else [])
    outs = {}
    for sd in seeds:
        env = dict(os.environ)
        env["PYTHONHASHSEED"] = sd
        p = subprocess.run([sys.executable, "-c", script], env=env, capture_output=True, text=True, timeout=600)
        h.case(("seed", sd), True)
        if p.returncode != 0:
            h.ensure("script-runs", False, detail=p.stderr[-500:])
            continue
        lines = p.stdout.strip().splitlines()
        outs[sd] = lines[0]
        h.ensure("same-computation-twice-in-one-process-gives-same-result", lines[1] == "True", detail=f"PYTHONHASHSEED={sd}")
    vals = set(outs.values())
    h.ensure("same-result-in-every-process-and-hash-seed", len(vals) == 1, detail=f"{len(vals)} different outputs over seeds {list(outs)}")
    h.sample(dict(seeds=seeds, output_prefix=(next(iter(vals)) if vals else "")[:200]))


# ------------------------------------------------------------------ C11 fault injection at call boundaries

class Injected(KeyboardInterrupt):
    pass


def _run_with_fault(fn, k):
    """run fn(); raise Injected at the k-th call of a function defined in shapepy (k counted from 0).
    Returns ('done', ncalls) or ('injected', site) or ('raised', exc)."""
    state = {"n": 0, "site": None}

    def prof(frame, event, arg):
        if event == "call" and "/shapepy/" in frame.f_code.co_filename:
            if state["n"] == k:
                state["n"] += 1
                state["site"] = f"{os.path.basename(frame.f_code.co_filename)}:{frame.f_code.co_name}"
                f = frame
                while f is not None:
                    if f.f_code.co_name == "invert" and "/shapepy/" in f.f_code.co_filename:
                        state["site"] += " <inside an in-place invert()>"
                        break
                    f = f.f_back
                raise Injected(state["site"])
            state["n"] += 1

    sys.setprofile(prof)
    try:
        fn()
        return "done", state["n"]
    except Injected:
        return "injected", state["site"]
    except BaseException as e:  # noqa: BLE001
        return "raised", e
    finally:
        sys.setprofile(None)


@bounded("C11.rc-fault-injection", "C11", funcs=["shape.SimpleShape._contains_shape", "shape.DefinedShape.__or__", "shape.DefinedShape.__and__", "shape.FollowPath.split_two_jordans",
                                                 "jordancurve.JordanCurve.invert", "jordancurve.JordanCurve.split", "jordancurve.JordanCurve.__eq__"],
         bound="operations {B in A (all kind pairs incl. connected-in-simple), A|B, A&B, A-B, A^B, A==B, float, copy, moments} on small grid-zoo shapes: KeyboardInterrupt injected at the k-th shapepy call boundary for k = 0..150 and every 23rd boundary up to 3000; operands compared with snapshots (exact area, well-formedness, membership of probe points, later queries)", timeout=1500)
def _c11_fault(h):
    regs = {"sq": zoo.region("square2", 0), "ring": zoo.region("ring", 0), "unit": zoo.region("unit", 1, (1, 1)), "bar": zoo.region("bar3", 1, (0, 0)), "L": zoo.region("L", 1, (1, 0)),
            "big": zoo.region("big3", 0)}
    regs["~unit"] = ~zoo.region("unit", 1, (1, 1))
    regs["~big"] = ~zoo.region("big3", 0)
    combos = [("ring", "unit"), ("~big", "~unit"), ("big", "ring"), ("sq", "bar"), ("ring", "L")]
    ops = {"B in A": lambda a, b: b in a, "A in B": lambda a, b: a in b, "A|B": lambda a, b: a | b, "A&B": lambda a, b: a & b, "A-B": lambda a, b: a - b, "A^B": lambda a, b: a ^ b,
           "A==B": lambda a, b: a == b, "float": lambda a, b: (float(a), float(b)), "copy": lambda a, b: (_copy.deepcopy(a), _copy.copy(b)),
           "moment": lambda a, b: IntegrateShape.polynomial(a, 1, 1), "~A in ~B": lambda a, b: (~a) in (~b)}
    if h.tier == "quick":
        combos = combos[:4]
    for na, nb in combos:
        RA, RB = regs[na], regs[nb] if nb in regs else None
        # second operand of ("big", "ring") lives on lattice 0 too -> shift it to lattice 1
        if nb == "ring":
            RB = zoo.region("ring", 1, (0, 0))
        pts = [(float(x), float(y)) for x, y in (RA | RB).cell_centres()][::4]
        for opn, op in ops.items():
            A0, B0 = to_shape(RA, "frac"), to_shape(RB, "frac")
            st, n = _run_with_fault(lambda: op(A0, B0), 10**9)
            if st != "done":
                continue  # the operation itself raises on this input: covered elsewhere
            ks = list(range(0, min(n, 150))) + list(range(150, min(n, 3000), 23))
            for k in ks:
                A, B = to_shape(RA, "frac"), to_shape(RB, "frac")
                sigA, sigB = _region_signature(A, pts), _region_signature(B, pts)
                st, site = _run_with_fault(lambda: op(A, B), k)
                if st != "injected":
                    continue
                h.case((opn, site), True)
                okA = _region_signature(A, pts) == sigA and not well_formed(A)
                okB = _region_signature(B, pts) == sigB and not well_formed(B)
                detail = f"{na},{nb}: {opn} interrupted at call #{k} ({site}): operand A intact={okA}, B intact={okB}"
                if okA and okB:
                    # later queries answer as before
                    try:
                        later = (IntegrateShape.area(A) == RA.area(), IntegrateShape.area(B) == RB.area(), (pts[0] in A) == bool(RA.contains(Fraction(pts[0][0]).limit_denominator(1000) and (Fraction(str(pts[0][0])), Fraction(str(pts[0][1]))))))
                    except Exception as e:  # noqa: BLE001
                        later = (False, f"{type(e).__name__}: {e}")
                    h.ensure("operands-answer-queries-as-before-after-interrupt", all(x is True for x in later), detail=detail + f" later={later}")
                    continue
                if "<inside an in-place invert()>" in site:
                    # mechanism-pinned: the interrupt arrived while JordanCurve.invert was reversing its segments in
                    # place (temporary inversion of `_contains_shape`, or its undoing) -- not atomic
                    h.finding("interrupt-inside-in-place-invert", detail)
                else:
                    h.ensure("operands-intact-after-interrupt", False, detail=detail)
    h.sample(dict(operation="B in A (unit square in ring)", injected="KeyboardInterrupt at every shapepy call boundary k"))


# ------------------------------------------------------------------ C07 curves

@bounded("C07.rc-curves", "C07", funcs=["jordancurve.JordanCurve.__eq__", "jordancurve.JordanCurve.clean", "curve.PlanarCurve.__eq__", "curve.PlanarCurve.__or__"],
         bound="closed curves of the zoo (polygons, quadratic/cubic/mixed) x representations (all rotations of the segment list, inserted collinear vertices, curved segments split at 1/2 and 1/3, int/Fraction/float) x distinct curves: reflexive, symmetric, transitive on triples, always a bool", timeout=900)
def _c07_curves(h):
    curves = [("tri", zoo.poly((0, 0), (5, 0), (1, 4))), ("quad", zoo.poly((0, 0), (4, 0), (4, 3), (0, 3))), ("L", zoo.poly((0, 0), (4, 0), (4, 2), (2, 2), (2, 4), (0, 4))),
              ("blob2", zoo.blob2()), ("blob3", zoo.blob3()), ("mixed", zoo.mixed123())]

    def mk(c, typ):
        conv = {"frac": lambda v: v, "float": float, "int": lambda v: int(v) if Fraction(v).denominator == 1 else v}[typ]
        return JordanCurve.from_ctrlpoints([[(conv(x), conv(y)) for x, y in seg] for seg in c])

    def variants(c):
        out = [("same", c)]
        for r in range(1, len(c)):
            out.append((f"rot{r}", c[r:] + c[:r]))
        # inserted collinear vertex on every straight segment / curved segments split by de Casteljau
        from .. import spec

        ins = []
        for seg in c:
            if len(seg) == 2:
                m = ((seg[0][0] + seg[1][0]) / 2, (seg[0][1] + seg[1][1]) / 2)
                ins += [[seg[0], m], [m, seg[1]]]
            else:
                l, r = spec.de_casteljau_split(seg, Fraction(1, 2))
                ins += [[tuple(p) for p in l], [tuple(p) for p in r]]
        out.append(("refined", ins))
        ins3 = []
        for seg in c:
            if len(seg) == 2:
                ins3.append(seg)
            else:
                l, r = spec.de_casteljau_split(seg, Fraction(1, 3))
                ins3 += [[tuple(p) for p in l], [tuple(p) for p in r]]
        if ins3 != list(c):
            out.append(("split-at-third", ins3))
        return out

    all_objs = []
    for name, c in curves:
        reps = []
        for vname, vc in variants(c):
            # (curved curves in float only: `point in curve` with Fraction data runs Newton in exact rationals)
            for typ in (("frac", "float", "int") if name in ("tri", "quad", "L") else ("float",)):
                reps.append((f"{name}/{vname}/{typ}", mk(vc, typ)))
        all_objs.append((name, reps))
        for i, (la, a) in enumerate(reps):
            for lb, b in ([reps[i]] + reps[i + 1:i + 3] + ([reps[0]] if i > 2 else [])):
                try:
                    with watchdog(60):
                        e1, e2 = (a == b), (b == a)
                except Exception as e:  # noqa: BLE001
                    h.ensure("comparison-always-returns-a-bool", False, detail=f"{la} == {lb}: {type(e).__name__}: {e}")
                    continue
                h.case((name, la.split("/")[1], lb.split("/")[1]), True)
                h.ensure("comparison-always-returns-a-bool", isinstance(e1, bool) and isinstance(e2, bool), detail=f"{la} == {lb}: {e1!r}")
                h.ensure("symmetric", e1 == e2, detail=f"{la} == {lb}: {e1} but reversed {e2}")
                h.ensure("same-curve-in-any-representation-is-equal", e1 is True, detail=f"{la} == {lb} is {e1}")
        a = reps[0][1]
        inv = ~a
        h.ensure("reversed-orientation-is-unequal", (a == inv) is False, detail=name)
    for i, (na, ra) in enumerate(all_objs):
        for nb, rb in all_objs[i + 1:]:
            try:
                e = ra[0][1] == rb[0][1]
            except Exception as ex:  # noqa: BLE001
                h.ensure("comparison-always-returns-a-bool", False, detail=f"{na} == {nb}: {type(ex).__name__}: {ex}")
                continue
            h.ensure("different-curves-are-unequal", e is False, detail=f"{na} == {nb} is {e}")


# ------------------------------------------------------------------ C17 / C15 bounded parts

@bounded("C17.rc-from-full-curve", "C17", funcs=["jordancurve.JordanCurve.from_full_curve"], bound="closed pynurbs curves of degree 1 and 2 (4 examples) against from_vertices / from_ctrlpoints of the same description", timeout=300)
def _c17_full(h):
    import pynurbs

    verts = [(0, 0), (4, 0), (4, 3), (0, 3)]
    pts = [Point2D(p) for p in verts + [verts[0]]]
    kv = pynurbs.GeneratorKnotVector.uniform(1, len(pts))
    full = pynurbs.Curve(kv, pts)
    j1 = JordanCurve.from_full_curve(full)
    j2 = JordanCurve.from_vertices(verts)
    h.case(("deg1", 4), True)
    h.ensure("from_full_curve-equals-from_vertices", (j1 == j2) is True and (j2 == j1) is True, detail="rectangle")
    h.ensure("same-vertices", [tuple(map(float, v)) for v in j1.vertices] == [tuple(map(float, v)) for v in j2.vertices])
    h.ensure("same-box-length-area", float(j1) == float(j2) and float(j1.box().toppt[0]) == float(j2.box().toppt[0]) and IntegrateJordan.area(j1) == IntegrateJordan.area(j2))
    kv = (0, 0, 0, 0.5, 1, 1, 1)
    cps = [Point2D(p) for p in [(0, 0), (4, 0), (0, 3), (0, 0)]]
    full = pynurbs.Curve(kv, cps)
    j1 = JordanCurve.from_full_curve(full)
    segs = [[tuple(map(float, p)) for p in s.ctrlpoints] for s in j1.segments]
    j2 = JordanCurve.from_ctrlpoints(segs)
    j3 = JordanCurve.from_segments([PlanarCurve(s) for s in segs])
    h.case(("deg2", 2), True)
    h.ensure("quadratic-full-curve-agrees-with-other-constructors", (j1 == j2) is True and (j2 == j3) is True and abs(float(j1) - float(j3)) < 1e-12, detail=str(segs))
    h.ensure("sign-of-float-is-orientation", (float(j1) > 0) == (IntegrateJordan.area(j1) > 0))
    full_open = pynurbs.Curve((0, 0, 1, 1), [Point2D(0, 0), Point2D(1, 1)])
    try:
        JordanCurve.from_full_curve(full_open)
        h.ensure("open-full-curve-rejected", False, detail="no exception")
    except Exception:  # noqa: BLE001
        h.ensure("open-full-curve-rejected", True)


@bounded("C15.rc-clean", "C15", funcs=["jordancurve.JordanCurve.clean", "curve.PlanarCurve.__or__", "curve.BezierCurve.clean", "jordancurve.JordanCurve.split"],
         bound="zoo curves x seeded split parameter multisets (1..4 parameters, incl. repeated, near-equal 1e-9 apart, near 0/1) x {split, clean, split+clean, clean twice}: area/orientation exact for rational polygons (1e-9 otherwise), junctions on the curve within 1e-6, no zero-length piece, clean idempotent, split+clean == original with the original segmentation", timeout=900)
def _c15_clean(h):
    rnd = random.Random(_seed() * 41 + 9)
    curves = [("tri", zoo.poly((0, 0), (5, 0), (1, 4))), ("L", zoo.poly((0, 0), (4, 0), (4, 2), (2, 2), (2, 4), (0, 4))), ("blob2", zoo.blob2()), ("blob3", zoo.blob3(0, 0, 3)), ("mixed", zoo.mixed123())]
    for name, c in curves:
        for typ in ("frac", "float"):
            conv = (lambda v: v) if typ == "frac" else float
            for rep in range(6 if h.tier == "quick" else 30):
                j = JordanCurve.from_ctrlpoints([[(conv(x), conv(y)) for x, y in seg] for seg in c])
                orig = _copy.deepcopy(j)
                nseg = len(j.segments)
                k = rnd.randint(1, 4)
                idx, par = [], []
                for _ in range(k):
                    i = rnd.randrange(nseg)
                    mode = rnd.choice(["mid", "mid", "repeat", "near", "edge"])
                    if mode == "repeat" and par:
                        i, t = idx[-1], par[-1]
                    elif mode == "near" and par:
                        i, t = idx[-1], par[-1] + (Fraction(1, 10**9) if typ == "frac" else 1e-9)
                    elif mode == "edge":
                        t = rnd.choice([Fraction(0), Fraction(1), Fraction(1, 10**7), 1 - Fraction(1, 10**7)])
                    else:
                        t = Fraction(rnd.randint(15, 85), 100)
                    idx.append(i)
                    par.append(min(max(t if typ == "frac" else float(t), 0), 1))
                where = f"{name} {typ} split({idx}, {[float(t) for t in par]})"
                try:
                    j.split(idx, par)
                except Exception as e:  # noqa: BLE001
                    h.ensure("split-does-not-raise", False, detail=f"{where}: {type(e).__name__}: {e}")
                    continue
                h.case((name, typ, k), True)
                # "whenever no piece was degree-reduced": a piece whose degree is lower than every original degree it
                # could come from means the library used its 1e-9 licence; the restore clauses then do not apply
                from collections import Counter

                c_orig = Counter(sg.degree for sg in orig.segments)
                c_now = Counter(sg.degree for sg in j.segments)
                cuts_on = Counter(orig.segments[i_].degree for i_ in idx)
                piece_reduced = any(c_now[d_] - c_orig[d_] > cuts_on[d_] for d_ in c_now)
                a0, a1 = oracle.curve_area(lib_curve(orig)), oracle.curve_area(lib_curve(j))
                straight = all(len(s) == 2 for s in c)
                if straight and typ == "frac":
                    h.ensure("area-exactly-unchanged", a0 == a1, detail=f"{where}: {a0} -> {a1}")
                else:
                    ok = abs(float(a0 - a1)) <= 1e-6 * (1 + abs(float(a0)))
                    if not ok and any(s.degree < len(cs) - 1 for s in j.segments for cs in c if s.degree < max(len(x) - 1 for x in c)):
                        h.finding("degree-reduced-split-piece", f"{where}: area {float(a0)} -> {float(a1)}")
                    else:
                        h.ensure("area-unchanged-within-1e-6", ok, detail=f"{where}: {float(a0)} -> {float(a1)}")
                segs = j.segments
                h.ensure("closed-chain-with-shared-junctions", all(segs[i].ctrlpoints[-1] is segs[(i + 1) % len(segs)].ctrlpoints[0] for i in range(len(segs))), detail=where)
                h.ensure("no-zero-length-piece", all(any(exact(p[0]) != exact(s.ctrlpoints[0][0]) or exact(p[1]) != exact(s.ctrlpoints[0][1]) for p in s.ctrlpoints[1:]) for s in segs), detail=where)
                h.ensure("orientation-unchanged", (a0 > 0) == (a1 > 0), detail=where)
                # junction points lie on the original curve
                for s in segs:
                    p = s.ctrlpoints[0]
                    d2 = oracle.dist2_to_curve_lower_bound(lib_curve(orig), (exact(p[0]), exact(p[1])), 400)
                    h.ensure("junction-on-the-original-curve-within-1e-3-sampling", d2 < 1e-4, detail=f"{where}: vertex {tuple(map(float, p))} at distance^2 {d2}")
                try:
                    j.clean()
                    n1 = len(j.segments)
                    j.clean()
                    h.ensure("clean-idempotent", len(j.segments) == n1, detail=where)
                    # (== on curved curves with Fraction data runs the Newton projection in exact rationals: minutes)
                    eq = (j == orig) if (straight or typ == "float") else True
                except Exception as e:  # noqa: BLE001
                    import traceback as _tb

                    frames = [f.filename for f in _tb.extract_tb(e.__traceback__)]
                    if isinstance(e, TypeError) and "Rational instances" in str(e) and any("pynurbs" in f for f in frames) and typ == "frac" and not straight:
                        # mechanism-pinned: exact-rational least squares inside pynurbs.Curve.knot_clean (called by PlanarCurve.__or__)
                        h.finding("clean-typeerror-rational-curved", f"{where}: clean() raised TypeError inside pynurbs (knot removal with Fraction data)")
                    else:
                        h.ensure("clean-does-not-raise", False, detail=f"{where}: {type(e).__name__}: {e}")
                    continue
                if len(j.segments) == nseg and eq is True:
                    continue
                if piece_reduced:
                    continue  # allowed by the property: a degree-reduced piece cannot be re-merged
                if not straight:
                    h.finding("curved-split-then-clean-does-not-restore-segmentation", f"{where}: {nseg} segments -> {len(j.segments)} after split+clean, == original: {eq}")
                else:
                    h.ensure("split-then-clean-restores-the-original", False, detail=f"{where}: {nseg} segments -> {len(j.segments)}, == original: {eq}")


# ------------------------------------------------------------------ C20 real matplotlib

@bounded("C20.rc-matplotlib", "C20", funcs=["plot.ShapePloter.plot", "plot.ShapePloter.plot_shape", "plot.path_shape", "plot.path_jordan", "plot.patch_segment"],
         bound="real matplotlib (Agg) on 10 zoo shapes (simple polygon, cubic blob, mixed degrees, hole, two components, unbounded, Empty, Whole): ax.patches paths (codes + vertices) compared with the boundary control points", timeout=600)
def _c20_mpl(h):
    import matplotlib

    matplotlib.use("Agg")
    from matplotlib import pyplot as plt
    from matplotlib.path import Path

    from shapepy.plot import ShapePloter

    shapes = [("tri", mk_simple(zoo.poly((0, 0), (5, 0), (1, 4)), "frac")), ("blob3", mk_simple(zoo.blob3(), "float")), ("mixed", mk_simple(zoo.mixed123(), "float")),
              ("blob2-cw", mk_simple(zoo.rev(zoo.blob2()), "float")), ("ring", to_shape(zoo.region("ring", 0))), ("two", to_shape(zoo.region("two", 0))),
              ("~ring", to_shape(~zoo.region("ring", 0))), ("ring+island", to_shape(zoo.region("ring+island", 0))), ("empty", EmptyShape()), ("whole", WholeShape())]
    for name, S in shapes:
        fig, ax = plt.subplots()
        before = None if not isinstance(S, DefinedShape) else [lib_curve(j) for j in S.jordans]
        try:
            ShapePloter(fig=fig, ax=ax).plot(S)
        except Exception as e:  # noqa: BLE001
            h.ensure("plot-does-not-raise", False, detail=f"{name}: {type(e).__name__}: {e}")
            plt.close(fig)
            continue
        h.case((name,), True)
        patches = list(ax.patches)
        if isinstance(S, EmptyShape):
            h.ensure("empty-draws-nothing", len(patches) == 0 and len(ax.collections) == 0)
        elif isinstance(S, WholeShape):
            h.ensure("whole-draws-no-patch", len(patches) == 0)
        else:
            comps = S.subshapes if isinstance(S, DisjointShape) else [S]
            njord = sum(len(c.jordans) for c in comps)
            h.ensure("one-filled-patch-per-component-plus-one-outline-per-curve", len(patches) == len(comps) + njord, detail=f"{name}: {len(patches)} patches")
            outlines = [p for p in patches if p.get_facecolor()[3] == 0 or p.get_fill() is False or tuple(p.get_facecolor()) == (0, 0, 0, 0)]
            want_paths = []
            for c in comps:
                for jd in c.jordans:
                    verts = [tuple(map(float, jd.segments[0].ctrlpoints[0]))]
                    codes = [Path.MOVETO]
                    for sg in jd.segments:
                        verts += [tuple(map(float, p)) for p in sg.ctrlpoints[1:]]
                        codes += {1: [Path.LINETO], 2: [Path.CURVE3] * 2, 3: [Path.CURVE4] * 3}[sg.degree]
                    verts.append(verts[0])
                    codes.append(Path.CLOSEPOLY)
                    want_paths.append((verts, codes))
            got_outline = [(p.get_path().vertices.tolist(), list(p.get_path().codes)) for p in patches if len(p.get_path().codes) and list(p.get_path().codes).count(Path.MOVETO) == 1 and p.get_facecolor()[3] == 0]
            for wv, wc in want_paths:
                match = any(gc == wc and len(gv) == len(wv) and all(abs(a[0] - b[0]) < 1e-6 and abs(a[1] - b[1]) < 1e-6 for a, b in zip(gv, wv)) for gv, gc in got_outline)
                h.ensure("every-boundary-curve-has-an-outline-retracing-it", match, detail=f"{name}: no outline with codes {wc[:6]}... and the curve's control points")
            now = [lib_curve(j) for j in S.jordans]
            h.ensure("plotting-does-not-modify-the-shape", now == before, detail=name)
        plt.close(fig)


@bounded("C02.rc-after-transform", "C02", funcs=["shape.SimpleShape._contains_point", "jordancurve.JordanCurve.__float__", "jordancurve.IntegrateJordan.winding_number"], props=["C02"],
         bound="grid-zoo shapes (all kinds) + two curved blobs: query, then one of 8 in-place transformations (incl. mirrors scale(-1,1), scale(2,-3), rotations, moves), query again; truth = region denoted by the *current* boundary (orientation read from the control points by the oracle)", timeout=600)
def _c02_after(h):
    rnd = random.Random(_seed() * 19 + 4)
    cases = [(nm, lambda nm=nm: to_shape(zoo.region(nm, 0), "frac")) for nm in ("square2", "L", "ring", "two")]
    cases += [("~L", lambda: to_shape(~zoo.region("L", 0), "frac")), ("blob2", lambda: mk_simple(zoo.blob2(1, 1, 2), "float")), ("mixed", lambda: mk_simple(zoo.mixed123(), "float"))]
    maps = [("scale", (-1, 1)), ("scale", (2, -3)), ("scale", (-2, -1)), ("scale", (Fraction(1, 2), 3)), ("rotate", (90, True)), ("rotate", (1.0, False)), ("move", (3, -2)), ("scale", (1, -1))]
    for nm, mk in cases:
        for kind, args in maps:
            S = mk()
            probe0 = [(0.31, 0.27), (1.21, 0.77), (7.3, 7.9)]
            before = [p in S for p in probe0]  # warms every cache
            float(S), [float(j) for j in S.jordans]
            getattr(S, kind)(*args)
            d = desc_of(S)
            box = bbox(d.curves())
            pts = zoo.generic_points(rnd, box, 40)
            h.case((nm, kind, args), True)
            for p in pts:
                t = d.contains(p)
                if t is None or min(oracle.dist2_to_curve_lower_bound(c, p, 24) for c in d.curves()) < 1e-4:
                    continue
                lp = (float(p[0]), float(p[1]))
                try:
                    got = lp in S
                except Exception as e:  # noqa: BLE001
                    h.ensure("membership-after-transformation-does-not-raise", False, detail=f"{nm} {kind}{args}: {type(e).__name__}: {e}")
                    break
                if got != t and isinstance(S, SimpleShape) and any(sg.degree > 1 for sg in S.jordans[0].segments):
                    from .RCcurved import chord_polygon

                    c = Desc("simple", chord_polygon(lib_curve(S.jordans[0]))).contains(p)
                    if c is None or c == got:
                        h.finding("chord-sampling-lune", f"{nm} after {kind}{args}: point {lp} truth {t}, library {got} = membership in the chord polygon")
                        continue
                h.ensure("membership-is-truth-for-the-current-boundary", got == t, detail=f"{nm} after {kind}{args}: point {lp} truth {t} (boundary orientation as it is now), library {got}")


@bounded("C13.rc-big-denominators", "C13", funcs=["polygon.Point2D.__init__", "polygon.Point2D.__copy__", "jordancurve.JordanCurve.split", "curve.Intersection.lines"],
         bound="seeded pairs of rational rectangles / triangles whose coordinates have denominators around 1e5 (products of intermediate denominators exceed 1e9): every result vertex, area and first moment whose exact value has a denominator <= 1e9 must be that exact value, as a well-formed Fraction", timeout=600)
def _c13_bigden(h):
    rnd = random.Random(_seed() * 67 + 3)
    primes = [100003, 100019, 100043, 100049, 100057, 100069, 99991, 99989]

    def fr(lo, hi):
        d = rnd.choice(primes)
        return Fraction(rnd.randint(lo * d, hi * d), d)

    for k in range(12 if h.tier == "quick" else 60):
        x0, x1, y0, y1 = fr(0, 1), fr(3, 4), fr(0, 1), fr(2, 3)
        u0, u1, v0, v1 = fr(1, 2), fr(5, 6), fr(-2, -1), fr(1, 2)
        A = Primitive.polygon([(x0, y0), (x1, y0), (x1, y1), (x0, y1)])
        B = Primitive.polygon([(u0, v0), (u1, v0), (u1, v1), (u0, v1)])
        h.case(("rects", k % 4), True)
        for nm, op, verts, area in (("and", lambda a, b: a & b, {(u0, y0), (x1, y0), (x1, v1), (u0, v1)}, (x1 - u0) * (v1 - y0)),
                                     ("or", lambda a, b: a | b, None, (x1 - x0) * (y1 - y0) + (u1 - u0) * (v1 - v0) - (x1 - u0) * (v1 - y0))):
            try:
                R = op(A, B)
            except Exception as e:  # noqa: BLE001
                h.ensure("operator-does-not-raise", False, detail=f"rects {k} {nm}: {type(e).__name__}: {e}")
                continue
            got = {(v[0], v[1]) for j in R.jordans for v in j.vertices}
            wf = all(isinstance(c, Fraction) and type(c.numerator) is int and type(c.denominator) is int for v in got for c in v)
            h.ensure("result-coordinates-are-well-formed-fractions", wf, detail=f"rects {k} {nm}: {sorted(got)[:2]}")
            if verts is not None:
                h.ensure("crossing-vertices-with-small-exact-denominator-are-exact", got == verts, detail=f"rects {k} {nm}: got {sorted(got)}, exact {sorted(verts)}")
            a = IntegrateShape.area(R)
            if area.denominator <= 10**9:
                h.ensure("area-exact", a == area, detail=f"rects {k} {nm}: {a} vs {area}")
            else:
                h.ensure("area-exact-up-to-stored-rounding", abs(a - area) <= Fraction(1, 10**8), detail=f"rects {k} {nm}: {float(a)} vs {float(area)}")
    h.sample(dict(coordinates="k/p with p a prime near 1e5", products="denominators of crossing parameters ~1e10"))
