"""Layer L3, part b: containment (C02, C03), composition by loop cutting, decision tables, C19 setters."""
from __future__ import annotations

from fractions import Fraction

import z3

import shapepy.jordancurve as J
import shapepy.shape as S
from shapepy.curve import IntegratePlanar, PlanarCurve
from shapepy.jordancurve import IntegrateJordan, JordanCurve
from shapepy.polygon import Box, Point2D
from shapepy.shape import (BaseShape, ConnectedShape, DefinedShape, DisjointShape, EmptyShape, FollowPath, SimpleShape,
                           WholeShape)

from ..ghost import BoolFold, SumFold
from ..harness import AND, EQ, IFF, IMPLIES, ITE, NOT, OR, CalleePre, T, proof
from ..loopcut import AbsSeq, LoopCtl, StopPath, cut
from ..symx import Engine, Sym, SymBool

HALF = Fraction(1, 2)


# ------------------------------------------------------------------ C02 decision table

@proof("C02.table", "C02", funcs=["shape.SimpleShape._contains_point"], abstract=True)
def _c02_table(h):
    """SimpleShape._contains_point against the contracts of winding_number (w in {-1,-1/2,0,1/2,1}: +-1/2 on the
    curve with the orientation sign, orientation*1 inside the curve, 0 outside) and float(jordan) (sign = orientation)."""
    if not h.sym:
        return
    h.assumed_contract("IntegrateJordan.winding_number: structure proved (C02.winding-structure), per-segment angle bounded (C02.rc-*)")
    h.lemma("Jordan curve theorem + sum of subtended angles = 2*pi*winding number")
    eng = Engine.cur
    for boundary in (True, False):
        on = eng.fresh_bool("on")
        inside = eng.fresh_bool("inside")
        ccw = eng.fresh_bool("ccw")
        sign = ITE(ccw, 1, -1)
        w = eng.fresh_real("w", "F")
        eng.assume(w.t == z3.If(on.t, sign.t / 2, z3.If(inside.t, sign.t, 0)))
        fl = eng.fresh_real("len", "F")
        eng.assume(z3.And(fl.t != 0, (fl.t > 0) == ccw.t))
        shape = object.__new__(SimpleShape)
        jord = object.__new__(JordanCurve)
        shape._SimpleShape__jordancurve = jord
        seen = []

        def stub_wind(jordan, center=(0.0, 0.0), nnodes=None):
            if jordan is not jord:
                raise CalleePre("winding number of a different curve")
            seen.append(center)
            return w

        pt = Point2D(eng.fresh_real("px", "F"), eng.fresh_real("py", "F"))
        with h.stubs({(IntegrateJordan, "winding_number"): staticmethod(stub_wind), (JordanCurve, "__float__"): lambda self: fl}):
            res = shape._contains_point(pt, boundary)
        want = z3.If(on.t, z3.BoolVal(boundary), z3.If(ccw.t, inside.t, z3.Not(inside.t)))
        h.ensure(f"documented-answer[boundary={boundary}]", SymBool(T(res) == want) if not isinstance(res, bool) else SymBool(z3.BoolVal(res) == want))
        h.ensure("winding-about-the-query-point", len(seen) == 1 and seen[0] is pt)


# ------------------------------------------------------------------ generic ALL / ANY composition by loop cutting

def _lc_fold(h, owner_cls, method, seq_attr, elem_cls, callee_owner, callee, mode, call_args, label, early):
    """cut the loop of owner_cls.method over self.<seq_attr>; callee on the k-th element is stubbed by P(k);
    result must be ALL / ANY of P over the whole (unbounded) sequence; arguments must be passed through unchanged."""
    fold = BoolFold(label)
    eng = Engine.cur

    class Elem(elem_cls):
        def __init__(self, k):
            self.k = k

    class Abs(owner_cls):
        def __new__(cls, *a, **k):
            return object.__new__(cls)

        def __init__(self):
            pass

    setattr(Abs, seq_attr, AbsSeq(seq_attr, Elem))
    seq = getattr(Abs, seq_attr)

    def stub(elem, *args):
        if not isinstance(elem, Elem):
            raise CalleePre(f"{callee} called on something that is not an element of {seq_attr}")
        if len(args) != len(call_args) or any(a is not b for a, b in zip(args, call_args)):
            raise CalleePre(f"{callee} must receive the caller's arguments unchanged")
        return bool(fold.value(elem.k))

    if mode == "all":
        inv = lambda env, k, s: SymBool(fold.all(k))
    else:
        inv = lambda env, k, s: SymBool(z3.Not(fold.any(k)))
    ctl = LoopCtl(h, {0: inv}, fn_name=f"{owner_cls.__name__}.{method}")
    fn = owner_cls.__dict__[method]
    obj = Abs()
    with h.stubs({(callee_owner, callee): stub}):
        cutfn, src = cut(fn, ctl)
        try:
            res = cutfn(obj, *call_args)
        except StopPath:
            return
    want = fold.all(seq.n) if mode == "all" else fold.any(seq.n)
    h.ensure(f"{label}-result-is-{mode}-over-all-subshapes", SymBool(z3.BoolVal(bool(res)) == want))
    h.ensure(f"{label}-returns-bool", res is True or res is False)


def _mk_compose(name, prop, props, owner, method, seq_attr, elem_cls, callee_owner, callee, mode, nargs):
    @proof(name, prop, funcs=[f"shape.{owner.__name__}.{method}"], abstract=True, props=props)
    def _(h):
        if not h.sym:
            return
        h.assumed_contract(f"{callee_owner.__name__}.{callee} on each subshape (its own contract: table/kernel obligations of C02/C03)")
        args = tuple(object() for _ in range(nargs))
        if nargs == 2:
            args = (args[0], True)
            _lc_fold(h, owner, method, seq_attr, elem_cls, callee_owner, callee, mode, args, "closed", True)
            args = (args[0], False)
            _lc_fold(h, owner, method, seq_attr, elem_cls, callee_owner, callee, mode, args, "open", True)
        else:
            _lc_fold(h, owner, method, seq_attr, elem_cls, callee_owner, callee, mode, args, "", True)


_mk_compose("C02.compose[Connected._contains_point]", "C02", ["C02", "C19"], ConnectedShape, "_contains_point", "subshapes", SimpleShape, DefinedShape, "contains_point", "all", 2)
_mk_compose("C02.compose[Disjoint._contains_point]", "C02", ["C02", "C19"], DisjointShape, "_contains_point", "subshapes", SimpleShape, DefinedShape, "contains_point", "any", 2)
_mk_compose("C03.compose[Connected._contains_jordan]", "C03", ["C03"], ConnectedShape, "_contains_jordan", "subshapes", SimpleShape, DefinedShape, "contains_jordan", "all", 2)
_mk_compose("C03.compose[Disjoint._contains_jordan]", "C03", ["C03"], DisjointShape, "_contains_jordan", "subshapes", SimpleShape, DefinedShape, "contains_jordan", "any", 2)
_mk_compose("C03.compose[Connected._contains_shape]", "C03", ["C03"], ConnectedShape, "_contains_shape", "subshapes", SimpleShape, DefinedShape, "contains_shape", "all", 1)


@proof("C03.compose[Disjoint._contains_shape]", "C03", funcs=["shape.DisjointShape._contains_shape"], abstract=True)
def _disj_contains_shape(h):
    """Simple/Connected operand: ANY over own subshapes of `other in subshape`; Disjoint operand: ALL over the
    operand's subshapes of `subshape in self` (both loops cut, unbounded)."""
    if not h.sym:
        return
    for kind in (SimpleShape, ConnectedShape):
        fold = BoolFold("any")

        class Elem(SimpleShape):
            def __init__(self, k):
                self.k = k

        class Abs(DisjointShape):
            def __new__(cls):
                return object.__new__(cls)

            def __init__(self):
                pass

            subshapes = AbsSeq("subshapes", Elem)

        other = object.__new__(kind)

        def stub_contains(this, oth):
            if not isinstance(this, Elem) or oth is not other:
                raise CalleePre("`other in subshape` expected")
            return bool(fold.value(this.k))

        ctl = LoopCtl(h, {0: lambda env, k, s: SymBool(z3.Not(fold.any(k)))}, fn_name="DisjointShape._contains_shape")
        with h.stubs({(DefinedShape, "__contains__"): stub_contains}):
            cutfn, _ = cut(DisjointShape._contains_shape, ctl)
            try:
                res = cutfn(Abs(), other)
            except StopPath:
                continue
        h.ensure(f"any-subshape-contains-operand[{kind.__name__}]", SymBool(z3.BoolVal(bool(res)) == fold.any(Abs.subshapes.n)))
    # Disjoint operand
    fold = BoolFold("all")

    class OElem(SimpleShape):
        def __init__(self, k):
            self.k = k

    class OAbs(DisjointShape):
        def __new__(cls):
            return object.__new__(cls)

        def __init__(self):
            pass

        subshapes = AbsSeq("osubshapes", OElem)

    me = object.__new__(DisjointShape)

    def stub_contains2(this, oth):
        if this is not me or not isinstance(oth, OElem):
            raise CalleePre("`subshape in self` expected")
        return bool(fold.value(oth.k))

    ctl = LoopCtl(h, {1: lambda env, k, s: SymBool(fold.all(k))}, fn_name="DisjointShape._contains_shape")
    with h.stubs({(DefinedShape, "__contains__"): stub_contains2}):
        cutfn, _ = cut(DisjointShape._contains_shape, ctl)
        try:
            res = cutfn(me, OAbs())
        except StopPath:
            return
    h.ensure("every-component-of-operand-contained[Disjoint]", SymBool(z3.BoolVal(bool(res)) == fold.all(OAbs.subshapes.n)))


@proof("C03.dispatch", "C03", funcs=["shape.DefinedShape.__contains__", "shape.DefinedShape.contains_shape", "shape.DefinedShape.contains_point",
                                     "shape.DefinedShape.contains_jordan"], props=["C03", "C02"], abstract=True)
def _c03_dispatch(h):
    """type dispatch of `in`: shape -> contains_shape (Empty => True, Whole => False, else _contains_shape),
    curve -> contains_jordan(.., True), anything else -> contains_point(Point2D(x), True)."""
    if not h.sym:
        return
    for kind in (SimpleShape, ConnectedShape, DisjointShape):
        me = object.__new__(kind)
        calls = []
        pat = {
            (kind, "_contains_shape"): lambda self, o: calls.append(("shape", o)) or "S",
            (kind, "_contains_jordan"): lambda self, j, b=True: calls.append(("jordan", j, b)) or "J",
            (kind, "_contains_point"): lambda self, p, b=True: calls.append(("point", p, b)) or "P",
        }
        with h.stubs(pat):
            h.ensure("empty-is-contained", (EmptyShape() in me) is True and not calls)
            h.ensure("whole-is-not-contained", (WholeShape() in me) is False and not calls)
            other = object.__new__(SimpleShape)
            r = DefinedShape.__contains__(me, other)
            h.ensure("shape-goes-to-_contains_shape", r == "S" and calls == [("shape", other)])
            calls.clear()
            jd = object.__new__(JordanCurve)
            r = DefinedShape.__contains__(me, jd)
            h.ensure("curve-goes-to-_contains_jordan-closed", r == "J" and calls == [("jordan", jd, True)])
            calls.clear()
            x, y = Engine.cur.fresh_real("x", "F"), Engine.cur.fresh_real("y", "F")
            r = DefinedShape.__contains__(me, (x, y))
            h.ensure("pair-goes-to-_contains_point-closed", r == "P" and len(calls) == 1 and calls[0][0] == "point" and calls[0][2] is True
                     and isinstance(calls[0][1], Point2D) and calls[0][1][0] is x and calls[0][1][1] is y)
            calls.clear()
            p = Point2D(x, y)
            r = me.contains_point(p, False)
            h.ensure("boundary-flag-passed-through", r == "P" and calls == [("point", p, False)])
            _, e = h.call(me.contains_point, p, 1)
            h.ensure("non-bool-flag-rejected", isinstance(e, AssertionError))
            _, e = h.call(me.contains_shape, 5)
            h.ensure("non-shape-rejected", isinstance(e, AssertionError))
            calls.clear()


# ------------------------------------------------------------------ C02 winding structure (two loops cut)

@proof("C02.winding-structure", "C02", funcs=["jordancurve.IntegrateJordan.winding_number"], abstract=True, props=["C02", "C12"])
def _winding_structure(h):
    """for every number of segments: +-1/2 by orientation iff the centre is on some segment (box test first,
    sound by C18.hull), otherwise round(sum of the per-segment contributions); the centre is passed unchanged."""
    if not h.sym:
        return
    h.assumed_contract("IntegratePlanar.winding_number(seg, p) = angle subtended by the segment (bounded: C02.rc-winding-kernel)")
    h.assumed_contract("PlanarCurve.__contains__ (soundness proved C18.contains-sound; completeness bounded)")
    h.lemma("box soundness: a point on a segment is inside the curve's box (C18.hull + L0.box or-is-bounding-union)")
    eng = Engine.cur
    on = BoolFold("on")
    ws = SumFold("wind")
    inbox = eng.fresh_bool("inbox")
    fl = eng.fresh_real("flen", "F")
    eng.assume(fl.t != 0)
    ROUND = z3.Function("ROUND", z3.RealSort(), z3.RealSort())

    class Seg(PlanarCurve):
        def __init__(self, k):
            self.k = k

    class FakeBox:
        def __contains__(self, p):
            if p is not centre:
                raise CalleePre("box test of a different point")
            return bool(inbox)

    class AbsJ(JordanCurve):
        def __init__(self):
            pass

        segments = AbsSeq("segments", Seg)

        def box(self):
            return FakeBox()

        def __float__(self):
            return fl

    n = AbsJ.segments.n
    i = z3.Int("ii")
    eng.assume(z3.ForAll([i], z3.Implies(z3.And(i >= 0, i < n, on.V(i)), inbox.t)))  # box soundness lemma
    centre = Point2D(eng.fresh_real("cx", "F"), eng.fresh_real("cy", "F"))

    def stub_in(seg, p):
        if not isinstance(seg, Seg) or p is not centre:
            raise CalleePre("`center in bezier` expected")
        return bool(on.value(seg.k))

    def stub_w(seg, center=(0.0, 0.0), nnodes=None):
        if not isinstance(seg, Seg) or center is not centre:
            raise CalleePre("per-segment winding about the same centre expected")
        return ws.value(seg.k, "F")

    def stub_round(x, nd=None):
        return Sym(ROUND(x.t), "F") if isinstance(x, Sym) else round(x)

    inv0 = lambda env, k, s: SymBool(z3.Not(on.any(k)))
    inv1 = lambda env, k, s: (ws.use(k, k + 1), EQ(env["wind"], ws.total(k, "F")))[-1]
    ctl = LoopCtl(h, {0: inv0, 1: inv1}, fn_name="IntegrateJordan.winding_number")
    jord = AbsJ()
    with h.stubs({(PlanarCurve, "__contains__"): stub_in, (IntegratePlanar, "winding_number"): staticmethod(stub_w), (J, "round"): stub_round}):
        cutfn, src = cut(IntegrateJordan.winding_number, ctl)
        try:
            res = cutfn(jord, centre)
        except StopPath:
            return
    ws.use(n)
    onany = on.any(n)
    want_on = z3.If(fl.t > 0, z3.Q(1, 2), z3.Q(-1, 2))
    from ..symx import lift

    h.ensure("half-integer-with-orientation-sign-iff-on-curve-else-rounded-sum",
             SymBool(z3.If(onany, lift(res) == want_on, lift(res) == ROUND(ws.S(n)))))


# ------------------------------------------------------------------ C03 table (lemma table of Jordan domains)

@proof("C03.table", "C03", funcs=["shape.SimpleShape.__contains_simple", "shape.SimpleShape._contains_shape"], abstract=True)
def _c03_table(h):
    """SimpleShape.__contains_simple against the lemma table of Jordan domains: every return statement must be
    justified by the trusted lemmas G1..G5 (DESIGN 4, C03) or the obligation is refuted."""
    if not h.sym:
        return
    for l in ("G1 disjoint boxes => disjoint interiors", "G2 I_A subset I_B <=> J_A subset cl(I_B)", "G3 I_B subset I_A <=> J_B subset cl(I_A)",
              "G4 interiors disjoint <=> J_A subset cl(ext B) and not J_B subset cl(I_A)", "G5 subset => area order",
              "G6 distinct curves: not both I_A subset I_B and I_B subset I_A", "G7 I_B subset I_A => J_A subset cl(ext B) (an open subset of I_A does not meet J_A)"):
        h.lemma("Jordan domains: " + l)
    eng = Engine.cur
    posA, posB = eng.fresh_bool("posA"), eng.fresh_bool("posB")
    areaA, areaB = eng.fresh_real("areaA", "F"), eng.fresh_real("areaB", "F")
    eng.assume(z3.And(areaA.t != 0, areaB.t != 0, (areaA.t > 0) == posA.t, (areaB.t > 0) == posB.t))
    magA = z3.If(areaA.t > 0, areaA.t, -areaA.t)
    magB = z3.If(areaB.t > 0, areaB.t, -areaB.t)
    boxdisj = eng.fresh_bool("boxdisj")
    D, AinB, BinA = eng.fresh_bool("D"), eng.fresh_bool("AinB"), eng.fresh_bool("BinA")
    jA_clIB, jA_clEB, jB_clIA, jB_clEA = (eng.fresh_bool(n) for n in ("jA_clIB", "jA_clEB", "jB_clIA", "jB_clEA"))
    ax = [
        z3.Implies(boxdisj.t, D.t),  # G1
        AinB.t == jA_clIB.t,  # G2
        BinA.t == jB_clIA.t,  # G3
        D.t == z3.And(jA_clEB.t, z3.Not(jB_clIA.t)),  # G4
        D.t == z3.And(jB_clEA.t, z3.Not(jA_clIB.t)),  # G4 (roles swapped)
        z3.Implies(AinB.t, magA <= magB), z3.Implies(BinA.t, magB <= magA),  # G5
        z3.Implies(D.t, z3.And(z3.Not(AinB.t), z3.Not(BinA.t))),  # non-empty interiors
        z3.Implies(z3.And(AinB.t, BinA.t), z3.BoolVal(False)),  # distinct curves
        z3.Implies(BinA.t, jA_clEB.t), z3.Implies(AinB.t, jB_clEA.t),  # G7: an open subset of I_A does not meet J_A
    ]
    for a in ax:
        eng.assume(a)
    sub = z3.If(posA.t, z3.If(posB.t, AinB.t, D.t), z3.If(posB.t, z3.BoolVal(False), BinA.t))
    magA_s, magB_s = Sym(magA, "F"), Sym(magB, "F")

    def mk(cid, pos):
        o = object.__new__(SimpleShape)
        o.cid, o.pos = cid, pos
        jd = object.__new__(JordanCurve)
        jd.cid = cid
        o._SimpleShape__jordancurve = jd
        return o

    other, me = mk("A", posA.t), mk("B", posB.t)

    def stub_float(shape):
        mag = magA_s if shape.cid == "A" else magB_s
        return ITE(SymBool(shape.pos), mag, -mag)

    class FB:
        def __and__(self, o):
            return None if bool(boxdisj) else self

        def __bool__(self):
            return True

    def stub_contains(shape, what):
        # J_x subset of the closed region of `shape` (curve y, orientation pos)
        if not isinstance(what, JordanCurve) or what.cid == shape.cid:
            raise CalleePre("unexpected containment query in __contains_simple")
        if shape.cid == "B":  # J_A against B
            return bool(SymBool(z3.If(shape.pos, jA_clIB.t, jA_clEB.t)))
        return bool(SymBool(z3.If(shape.pos, jB_clIA.t, jB_clEA.t)))

    def stub_invert(shape):
        return mk(shape.cid, z3.Not(shape.pos))

    flips = {}

    def stub_invert_inplace(shape):
        flips[id(shape)] = flips.get(id(shape), 0) + 1
        shape.pos = z3.Not(shape.pos)
        return shape

    with h.stubs({(DefinedShape, "__float__"): stub_float, (DefinedShape, "box"): lambda shape: FB(), (DefinedShape, "__contains__"): stub_contains,
                  (SimpleShape, "__invert__"): stub_invert, (SimpleShape, "invert"): stub_invert_inplace}):
        res = me._contains_shape(other)
    h.ensure("result-is-subset-by-the-lemma-table", SymBool(z3.BoolVal(bool(res)) == sub))
    h.ensure("operands-not-left-inverted", flips.get(id(me), 0) % 2 == 0 and flips.get(id(other), 0) % 2 == 0)


@proof("C11.contains-simple-frame", "C11", funcs=["shape.SimpleShape.__contains_simple", "shape.SimpleShape._contains_shape"], abstract=True, props=["C11", "C08"])
def _c11_simple_frame(h):
    """the simple-in-simple decision with raising nested queries: whatever exit is taken (normal or exceptional), the
    two operands themselves have been inverted in place an even number of times (they may only be *copied* and the
    copies inverted)."""
    if not h.sym:
        return
    eng = Engine.cur
    posA, posB = eng.fresh_bool("posA"), eng.fresh_bool("posB")
    magA, magB = eng.fresh_real("magA", "F"), eng.fresh_real("magB", "F")
    eng.assume(z3.And(magA.t > 0, magB.t > 0))
    boxdisj = eng.fresh_bool("boxdisj")
    flips = {}
    keep = []

    def mk(cid, pos):
        o = object.__new__(SimpleShape)
        o.cid, o.pos = cid, pos
        jd = object.__new__(JordanCurve)
        jd.cid = cid
        o._SimpleShape__jordancurve = jd
        keep.append(o)
        return o

    other, me = mk("A", posA.t), mk("B", posB.t)

    class Boom(Exception):
        pass

    def stub_float(shape):
        mag = magA if shape.cid == "A" else magB
        return ITE(SymBool(shape.pos), mag, -mag)

    class FB:
        def __and__(self, o):
            return None if bool(boxdisj) else self

        def __bool__(self):
            return True

    def stub_contains(shape, what):
        k = eng.choose(3, "query")
        if k == 2:
            raise Boom("nested query raised")
        return k == 1

    def stub_invert_inplace(shape):
        flips[id(shape)] = flips.get(id(shape), 0) + 1
        shape.pos = z3.Not(shape.pos)
        return shape

    with h.stubs({(DefinedShape, "__float__"): stub_float, (DefinedShape, "box"): lambda shape: FB(), (DefinedShape, "__contains__"): stub_contains,
                  (SimpleShape, "__invert__"): lambda shape: mk(shape.cid, z3.Not(shape.pos)), (SimpleShape, "invert"): stub_invert_inplace}):
        res, e = h.call(me._contains_shape, other)
    h.ensure("only-the-callee-exception-propagates", e is None or isinstance(e, Boom))
    h.ensure("operands-not-left-inverted-on-any-exit", flips.get(id(me), 0) % 2 == 0 and flips.get(id(other), 0) % 2 == 0,
             detail=f"in-place inversions of (self, other) on exit: {flips.get(id(me), 0)}, {flips.get(id(other), 0)}; exception: {type(e).__name__ if e else None}")


# ------------------------------------------------------------------ C03 connected-in-simple: soundness + restoration

def _mk_conn_in_simple(n):
    @proof(f"C03.connected-in-simple[n={n}]", "C03", funcs=["shape.SimpleShape._contains_shape", "shape.SimpleShape.invert"], abstract=True,
           props=["C03", "C08", "C11"])
    def _(h):
        """De Morgan reduction: True only if some S_i is contained in self (=> the intersection is); every temporary
        inversion is undone on normal exit (exceptional exits: C11)."""
        if not h.sym:
            return
        eng = Engine.cur
        me = object.__new__(SimpleShape)
        subs = [object.__new__(SimpleShape) for _ in range(n)]
        other = object.__new__(ConnectedShape)
        other._ConnectedShape__subshapes = tuple(subs)
        flips = {id(s): 0 for s in subs + [me]}
        subset = [eng.fresh_bool(f"S{i}_in_self") for i in range(n)]
        order = []

        def stub_invert(shape):
            flips[id(shape)] += 1
            order.append(("inv", shape))
            return shape

        def stub_contains(this, what):
            # `self in subshape` with both complemented: (not self) subset (not S_i)  <=>  S_i subset self
            if what is not me or not any(this is s for s in subs):
                raise CalleePre("unexpected query")
            if flips[id(me)] % 2 != 1 or flips[id(this)] % 2 != 1:
                raise CalleePre("nested query must see both operands complemented")
            order.append(("in", this))
            return bool(subset[[i for i, s in enumerate(subs) if s is this][0]])

        with h.stubs({(SimpleShape, "invert"): stub_invert, (DefinedShape, "__contains__"): stub_contains}):
            res = me._contains_shape(other)
        h.ensure("true-only-if-some-subshape-is-contained", SymBool(z3.Implies(z3.BoolVal(bool(res)), z3.Or(*[s.t for s in subset]))))
        h.ensure("true-whenever-some-subshape-is-contained", SymBool(z3.Implies(z3.Or(*[s.t for s in subset]), z3.BoolVal(bool(res)))))
        h.ensure("all-temporary-inversions-undone", all(v % 2 == 0 for v in flips.values()))
        h.ensure("returns-bool", res is True or res is False)


for _n in (1, 2, 3):
    _mk_conn_in_simple(_n)


@proof("C03.disjoint-in-simple", "C03", funcs=["shape.SimpleShape._contains_shape"], abstract=True)
def _disj_in_simple(h):
    """Disjoint operand: ALL components must be in self (loop cut, unbounded)."""
    if not h.sym:
        return
    fold = BoolFold("comp")

    class Elem(SimpleShape):
        def __init__(self, k):
            self.k = k

    class OAbs(DisjointShape):
        def __new__(cls):
            return object.__new__(cls)

        def __init__(self):
            pass

        subshapes = AbsSeq("osub", Elem)

    me = object.__new__(SimpleShape)

    def stub_contains(this, what):
        if this is not me or not isinstance(what, Elem):
            raise CalleePre("`subshape in self` expected")
        return bool(fold.value(what.k))

    ctl = LoopCtl(h, {1: lambda env, k, s: SymBool(fold.all(k))}, fn_name="SimpleShape._contains_shape")
    with h.stubs({(DefinedShape, "__contains__"): stub_contains}):
        cutfn, _ = cut(SimpleShape._contains_shape, ctl)
        try:
            res = cutfn(me, OAbs())
        except StopPath:
            return
    h.ensure("all-components-contained", SymBool(z3.BoolVal(bool(res)) == fold.all(OAbs.subshapes.n)))
