"""Engine LC: mechanical loop cutting (Hoare rule) of the real function's own source (DESIGN 2.3).

`cut(fn, ctl)` re-parses the *current* source of `fn`, rewrites every `for x in ITER:` statement
by the fixed template below and compiles the result in fn's own globals.  For a concrete iterable
the original loop runs verbatim; for an abstract sequence (symbolic length) the loop is replaced
by: establish invariant / havoc loop-carried names / assume invariant at a fresh index k /
one generic iteration of the *real body* / assert invariant at k+1 (then the path stops), or fall
through with k == len.  Nothing is dropped from the body.  Not supported (=> Unsupported): `break`
and `else:` on a cut loop over an abstract sequence.
"""
from __future__ import annotations

import ast
import inspect
import textwrap

import z3

from .symx import Engine, Sym, SymBool, Unsupported


class StopPath(Exception):
    """end of a preservation path (the iteration was checked; nothing follows)."""


class AbsSeq:
    """sequence of symbolic length n >= 0 with opaque elements elem(k)"""

    def __init__(self, name, make_elem):
        self.name = name
        self.n = z3.Int(name + "_len")
        self.make_elem = make_elem
        self._cache = {}

    def elem(self, k):
        key = k.sexpr() if hasattr(k, "sexpr") else str(k)
        if key not in self._cache:
            self._cache[key] = self.make_elem(k)
        return self._cache[key]

    def __iter__(self):
        raise Unsupported(f"iteration over abstract sequence {self.name} outside a cut loop")

    def __len__(self):
        raise Unsupported(f"len() of abstract sequence {self.name}")


class LoopCtl:
    """per-harness controller: invariants and havoc kinds keyed by loop ordinal (source order)."""

    def __init__(self, h, invariants, havoc=None, fn_name=""):
        self.h = h
        self.inv = invariants  # {lid: callable(env, k, seq) -> bool term}
        self.havoc_kinds = havoc or {}
        self.fn_name = fn_name

    def is_abs(self, s):
        return isinstance(s, AbsSeq)

    def enter(self, lid, seq, env):
        if lid not in self.inv:
            raise Unsupported(f"loop {lid} of {self.fn_name} iterates an abstract sequence but has no invariant")
        Engine.cur.assume(seq.n >= 0)
        self.h.ensure(f"loop{lid}-invariant-established", self.inv[lid](env, z3.IntVal(0), seq))

    def havoc(self, lid, name, old, k=None):
        kind = self.havoc_kinds.get(lid, {}).get(name)
        eng = Engine.cur
        if callable(kind):
            return kind(eng, k)
        if kind is None:
            if isinstance(old, Sym) or (isinstance(old, (int, float)) and not isinstance(old, bool)):
                kind = "real"
            elif isinstance(old, (bool, SymBool)):
                kind = "bool"
            else:
                return old  # not a value the loop accumulates (e.g. the loop variable of a nested helper)
        if kind == "real":
            return eng.fresh_real(name + "!h", "Q")
        if kind == "realF":
            return eng.fresh_real(name + "!h", "F")
        if kind == "bool":
            return eng.fresh_bool(name + "!h")
        if kind == "keep":
            return old
        raise Unsupported(f"havoc kind {kind}")

    def index(self, lid, seq):
        eng = Engine.cur
        k = eng.fresh_int(f"k{lid}")
        eng.assume(z3.And(k >= 0, k <= seq.n))
        return k

    def assume_inv(self, lid, env, k, seq):
        from .harness import T

        Engine.cur.assume(T(self.inv[lid](env, k, seq)))

    def more(self, k, seq):
        return Engine.cur.decide(k < seq.n)

    def preserve(self, lid, env, k, seq):
        self.h.ensure(f"loop{lid}-invariant-preserved", self.inv[lid](env, k + 1, seq))
        raise StopPath()


class _Cutter(ast.NodeTransformer):
    def __init__(self):
        self.count = 0

    def visit_For(self, node):
        lid = self.count
        self.count += 1
        self.generic_visit(node)
        has_break = any(isinstance(n, ast.Break) for b in node.body for n in ast.walk(b)
                        if not isinstance(n, (ast.For, ast.While)))
        stored = set()
        for b in node.body:
            for n in ast.walk(b):
                if isinstance(n, ast.Name) and isinstance(n.ctx, ast.Store):
                    stored.add(n.id)
        tgt_names = {n.id for n in ast.walk(node.target) if isinstance(n, ast.Name)}
        carried = sorted(v for v in stored if v not in tgt_names and not v.startswith("_vf"))
        tgt = ast.unparse(node.target)
        it = ast.unparse(node.iter)
        body = "\n".join(ast.unparse(b) for b in node.body)
        orig = ast.unparse(node)
        hav = "\n".join(
            f"    {v} = _vfctl.havoc({lid}, '{v}', locals().get('{v}'), _vfk{lid})" for v in carried) or "    pass"
        unsupported = ""
        if has_break or node.orelse:
            unsupported = f"    raise _vfUnsupported('break/else on cut loop {lid}')\n"
        src = f"""
_vfseq{lid} = {it}
if not _vfctl.is_abs(_vfseq{lid}):
{textwrap.indent(orig.replace(it, f'_vfseq{lid}', 1) if orig.startswith('for ' + tgt + ' in ' + it) else orig, '    ')}
else:
{unsupported}    _vfctl.enter({lid}, _vfseq{lid}, locals())
    _vfk{lid} = _vfctl.index({lid}, _vfseq{lid})
{hav}
    _vfctl.assume_inv({lid}, locals(), _vfk{lid}, _vfseq{lid})
    if _vfctl.more(_vfk{lid}, _vfseq{lid}):
        {tgt} = _vfseq{lid}.elem(_vfk{lid})
        for _vfonce{lid} in (0,):
{textwrap.indent(body, '            ')}
        _vfctl.preserve({lid}, locals(), _vfk{lid}, _vfseq{lid})
"""
        return ast.parse(src).body


def cut(fn, ctl):
    """returns (cut function, transformed source text).  The result shares fn's module globals (so
    stubs installed later are seen) and keeps private-name mangling of its class."""
    src = textwrap.dedent(inspect.getsource(fn))
    tree = ast.parse(src)
    fdef = tree.body[0]
    fdef.decorator_list = []
    cutter = _Cutter()
    new_body = []
    for stmt in fdef.body:
        r = cutter.visit(stmt)
        if isinstance(r, list):
            new_body.extend(r)
        else:
            new_body.append(r)
    fdef.body = new_body
    parts = fn.__qualname__.split(".")
    if len(parts) > 1:  # keep name mangling: compile inside a class of the same name
        cls = ast.ClassDef(name=parts[-2], bases=[], keywords=[], body=[fdef], decorator_list=[])
        try:
            cls.type_params = []
        except Exception:
            pass
        tree = ast.Module(body=[cls], type_ignores=[])
    ast.fix_missing_locations(tree)
    g = fn.__globals__
    g["_vfctl"] = ctl
    g["_vfUnsupported"] = Unsupported
    code = compile(tree, f"<cut:{fn.__qualname__}>", "exec")
    loc = {}
    exec(code, g, loc)
    new = loc[parts[-2]].__dict__[fdef.name] if len(parts) > 1 else loc[fdef.name]
    return new, ast.unparse(tree)


def nloops(fn):
    src = textwrap.dedent(inspect.getsource(fn))
    return sum(isinstance(n, ast.For) for n in ast.walk(ast.parse(src)))
