"""Static per-property metadata used in the evidence files."""
LEVELS = {}
EXPLAIN = {}
ASSUMPTIONS = [
    "A1 int/Fraction arithmetic is exact rational arithmetic; formulas valid over the reals are valid over the rationals",
    "A2 Fraction.limit_denominator(n) is the identity when the denominator is <= n (mode-Q proofs assume stored denominators <= 10^9)",
    "A3 floats are treated as mathematical reals (no rounding/overflow/NaN); library tolerances are kept as exact rationals",
    "A4 math.sqrt is the real square root; cos/sin of a symbolic angle are fresh constants with c^2+s^2=1; arctan2 is not modelled",
    "A5 numpy object-dtype dot/inner/prod, sorted, zip/enumerate/map, tuple/list operations are executed by the real interpreter",
    "A6 min/max/abs on symbolic numbers are merged into ite terms",
    "A7 hashing a symbolic number is unsupported except at sites whitelisted by the harness",
    "A8 structure (lengths, degrees, classes, identities) is concrete per harness and enumerated up to the stated bound",
    "A9 termination is not proved; every run is under a wall-clock watchdog",
    "A10 re-execution per path is deterministic",
]
