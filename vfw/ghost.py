"""Ghost vocabulary for modular / loop-cut proofs (DESIGN 2.3, 2.4): recursive folds over abstract
sequences and uninterpreted region predicates."""
from __future__ import annotations

import z3

from .symx import Engine, Sym, SymBool

_n = [0]


def _uid(name):
    _n[0] += 1
    return f"{name}#{_n[0]}"


class SumFold:
    """SUM(k) = sum_{i<k} V(i), by unfolding instances (no quantifier reaches the solver)."""

    def __init__(self, name):
        self.V = z3.Function(_uid(name + "_V"), z3.IntSort(), z3.RealSort())
        self.S = z3.Function(_uid(name + "_SUM"), z3.IntSort(), z3.RealSort())

    def unfold(self, k):
        return z3.And(self.S(0) == 0, z3.Implies(k >= 0, self.S(k + 1) == self.S(k) + self.V(k)))

    def use(self, *ks):
        for k in ks:
            Engine.cur.assume(self.unfold(k))

    def value(self, k, mode="Q"):
        return Sym(self.V(k), mode)

    def total(self, n, mode="Q"):
        return Sym(self.S(n), mode)


class BoolFold:
    """ALL(k) / ANY(k) over V(i), i < k, defined by bounded quantifiers."""

    def __init__(self, name):
        self.V = z3.Function(_uid(name + "_P"), z3.IntSort(), z3.BoolSort())

    def all(self, k):
        i = z3.Int(_uid("i"))
        return z3.ForAll([i], z3.Implies(z3.And(i >= 0, i < k), self.V(i)))

    def any(self, k):
        i = z3.Int(_uid("i"))
        return z3.Exists([i], z3.And(i >= 0, i < k, self.V(i)))

    def value(self, k):
        return SymBool(self.V(k))


class Regions:
    """uninterpreted region / boundary predicates R(s, x, y), BD(s, x, y) indexed by ghost ids."""

    def __init__(self):
        self.R = z3.Function(_uid("R"), z3.IntSort(), z3.RealSort(), z3.RealSort(), z3.BoolSort())
        self.BD = z3.Function(_uid("BD"), z3.IntSort(), z3.RealSort(), z3.RealSort(), z3.BoolSort())
        self.ids = {}
        self.keep = []

    def gid(self, obj):
        from shapepy.shape import EmptyShape, WholeShape

        if isinstance(obj, EmptyShape):
            return 0
        if isinstance(obj, WholeShape):
            return 1
        if id(obj) not in self.ids:
            self.ids[id(obj)] = 10 + len(self.ids)
            self.keep.append(obj)
        return self.ids[id(obj)]

    def axioms(self):
        q1, q2 = z3.Reals("q1 q2")
        return [z3.ForAll([q1, q2], z3.Not(self.R(0, q1, q2))), z3.ForAll([q1, q2], self.R(1, q1, q2)),
                z3.ForAll([q1, q2], z3.Not(self.BD(0, q1, q2))), z3.ForAll([q1, q2], z3.Not(self.BD(1, q1, q2)))]

    def r(self, obj, x, y):
        return self.R(self.gid(obj), x, y)

    def bd(self, obj, x, y):
        return self.BD(self.gid(obj), x, y)
