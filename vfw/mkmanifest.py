"""writes /verif/MANIFEST.json from vfw/meta.py (run: .venv/bin/python -m vfw.mkmanifest)"""
import json, os
from .meta import PROPS, NOT_APPLICABLE
ROOT = os.path.dirname(os.path.dirname(os.path.abspath(__file__)))
ALL = [f"C{i:02d}" for i in range(1, 21)]
m = {
    "version": 1,
    "setup_cmd": "./setup.sh",
    "hooks": {"guard": "SHAPEPY_VERIF", "enable": "no source hooks: all instrumentation is applied from outside by attribute patching inside the checker process (the launcher exports SHAPEPY_VERIF=1 for information only)",
              "baseline_off_cmd": "cd /repo && /venv/bin/python -m pytest -ra -q -p no:cacheprovider --timeout=900 --continue-on-collection-errors",
              "source_commits": [], "add_only": True},
    "engines": [
        {"name": "SX", "path": "vfw/symx.py", "serves_properties": sorted(PROPS), "kind_free_text": "path-exhaustive symbolic execution of the real function objects as VC generator; z3 (cvc5 second opinion) discharges"},
        {"name": "LC", "path": "vfw/loopcut.py", "serves_properties": [p for p in ("C02", "C03", "C04", "C19") if p in PROPS], "kind_free_text": "mechanical Hoare-rule loop cutting of the real function's AST for unbounded sequence length"},
        {"name": "RC", "path": "vfw/harness.py", "serves_properties": sorted(PROPS), "kind_free_text": "bounded stand-in: run-time contract checking on a stated finite family, never counted as proved"},
    ],
    "checks": [],
    "not_applicable": [{"property_id": p, "reason": NOT_APPLICABLE.get(p, "check not built yet in this round (see DESIGN.md section 4 for the plan)")} for p in ALL if p not in PROPS],
    "notes": "see DESIGN.md; known_findings.json lists repaired and open defects",
}
for p in ALL:
    if p not in PROPS:
        continue
    level, text, note, tech, _ = PROPS[p]
    m["checks"].append({
        "property_id": p, "quick_cmd": f"./vf check {p} --tier quick", "thorough_cmd": f"./vf check {p} --tier thorough",
        "evidence_file": f"evidence/{p}.json", "replay_cmd_template": "./vf replay {path}", "engine": "SX",
        "level_claimed": {"category": level, "text": text, "design_ref": f"DESIGN.md section 4, {p}"},
        "level_note": note, "technique": tech})
json.dump(m, open(os.path.join(ROOT, "MANIFEST.json"), "w"), indent=1)
print("MANIFEST.json:", len(m["checks"]), "checks,", len(m["not_applicable"]), "not applicable")
