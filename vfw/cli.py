"""./vf check <id> [--tier quick|thorough] | replay <file> | list | selftest ...  (DESIGN 7)"""
from __future__ import annotations

import argparse
import hashlib
import importlib
import json
import multiprocessing as mp
import os
import subprocess
import sys
import time

ROOT = os.path.dirname(os.path.dirname(os.path.abspath(__file__)))
REPO = os.environ.get("VF_REPO", "/repo")
ALL_PROPS = [f"C{i:02d}" for i in range(1, 21)]


def _setup_path():
    src = os.path.join(REPO, "src")
    if src not in sys.path:
        sys.path.insert(0, src)
    import shapepy  # noqa: F401

    got = os.path.realpath(os.path.dirname(shapepy.__file__))
    want = os.path.realpath(os.path.join(src, "shapepy"))
    if got != want:
        print(f"CHECKER-ERROR: shapepy imported from {got}, expected {want}")
        sys.exit(3)


def load_harnesses():
    import warnings

    warnings.filterwarnings("ignore")
    from . import harness

    pdir = os.path.join(ROOT, "vfw", "props")
    for fn in sorted(os.listdir(pdir)):
        if fn.endswith(".py") and fn not in ("__init__.py", "common.py"):
            importlib.import_module(f"vfw.props.{fn[:-3]}")
    return harness.REGISTRY


def tree_fingerprint():
    h = hashlib.sha256()
    src = os.path.join(REPO, "src", "shapepy")
    for fn in sorted(os.listdir(src)):
        if fn.endswith(".py"):
            h.update(fn.encode())
            h.update(open(os.path.join(src, fn), "rb").read())
    return h.hexdigest()[:16]


def _worker(args):
    name, tier, seed = args
    from . import harness

    os.environ["VERIF_SEED"] = str(seed)
    return harness.run_task(name, tier, seed)


def load_known():
    p = os.path.join(ROOT, "known_findings.json")
    if not os.path.exists(p):
        return []
    return json.load(open(p))["findings"]


def select(reg, prop, tier, only=None):
    sel = []
    kind = os.environ.get("VF_KIND")
    for name, h in reg.items():
        if prop not in h.props:
            continue
        if kind and h.kind != kind:
            continue
        if tier == "quick" and h.tier != "quick":
            continue
        if only and not any(o in name for o in only):
            continue
        sel.append(name)
    return sel


def run_pool(names, tier, seed, jobs):
    tasks = [(n, tier, seed) for n in names]
    results = []
    if jobs <= 1 or len(tasks) <= 1:
        for t in tasks:
            results.append(_worker(t))
        return results
    ctx = mp.get_context("fork")
    # every worker enforces its own wall-clock budget; this outer limit only guards against a worker that dies
    # without answering (a crashed solver process would otherwise make the pool wait forever)
    limit = 2400 if tier == "quick" else 8000
    with ctx.Pool(processes=min(jobs, len(tasks)), maxtasksperchild=1) as pool:
        it = pool.imap_unordered(_worker, tasks, chunksize=1)
        for _ in range(len(tasks)):
            try:
                results.append(it.next(timeout=limit))
            except mp.TimeoutError:
                done = {r["name"] for r in results}
                from . import harness

                for n, _t, _s in tasks:
                    if n not in done:
                        hb = harness.REGISTRY[n]
                        results.append(dict(name=n, prop=hb.prop, kind=hb.kind, funcs=hb.funcs, status="undecided", expect=hb.expect,
                                            reason=f"no answer from the worker within {limit}s (worker lost)", wall_s=limit, note=hb.note))
                pool.terminate()
                break
            except StopIteration:
                break
    return results


def cmd_check(prop, tier, seed, jobs, only=None, verbose=False):
    t0 = time.time()
    reg = load_harnesses()
    allknown = [k for k in load_known() if k.get("status", "open") == "open"]
    known = [k for k in allknown if k.get("property") == prop]
    known_keys = {k["key"]: k for k in known}
    # a mechanism-pinned finding recorded under *other* properties: a shared harness re-observing it while another
    # property is checked is neither a finding nor a violation of this property
    elsewhere = {}
    for k in allknown:
        if k["key"] not in known_keys:
            elsewhere.setdefault(k["key"], []).append(k["property"])
    names = select(reg, prop, tier, only)
    # a canary per run: a deliberately false contract must be refuted and replayed (2.8)
    canaries = [n for n, h in reg.items() if h.expect == "refuted" and "canary" in n]
    names_all = names + [c for c in canaries if c not in names]
    if not names:
        print(f"UNDECIDED property={prop} reason=no-obligations-registered")
        return 2
    results = run_pool(sorted(names_all, key=lambda n: -(reg[n].timeout or 0)), tier, seed, jobs)
    results.sort(key=lambda r: r["name"])
    fp = tree_fingerprint()
    os.makedirs(os.path.join(ROOT, "replays"), exist_ok=True)
    evdir = os.environ.get("VF_EVIDENCE_DIR") or os.path.join(ROOT, "evidence")
    if (only or os.environ.get("VF_KIND")) and not os.environ.get("VF_EVIDENCE_DIR"):
        evdir = os.path.join(ROOT, "scratch", "partial-evidence")  # a filtered run never overwrites the real evidence
    os.makedirs(evdir, exist_ok=True)

    violations, undecided, crashes, known_seen = [], [], [], []
    negative_ok = []
    slowest = []
    by_backend = {"z3": 0, "cvc5": 0, "evaluated-concretely": 0}
    obligations = discharged = 0
    named = named_ok = 0
    solver_s = 0.0
    evals = nontriv = 0
    samples, bsamples = [], []
    funcs = {}
    trusted, assumed, lemmas, shims, notes = set(), set(), set(), set(), []
    per_harness = []
    xc_ok = xc_models = 0
    bounded_rules = []

    for r in results:
        hn = r["name"]
        hobj = reg[hn]
        is_canary = hobj.expect == "refuted"
        st = r.get("status")
        line = f"  [{st:>9}] {hn}  ({r.get('wall_s', 0)}s"
        if r.get("kind") == "proof":
            line += f", paths={r.get('paths', {}).get('ret', 0)}+{r.get('paths', {}).get('exc', 0)}exc, vcs={r.get('discharged', 0)}/{r.get('vcs', 0)}"
        else:
            line += f", evals={r.get('evaluations', 0)}, nontrivial={r.get('distinct_nontrivial', 0)}"
        line += ")"
        if verbose or st not in ("proved", "held"):
            print(line)
            if r.get("reason"):
                print("      reason:", r["reason"])
        if is_canary:
            ok = st == "refuted" and all(x.get("reproduced") for x in r.get("refutations", []))
            if not ok:
                crashes.append((hn, "must-be-refuted contract was not refuted/replayed: engine unsound, replay broken, or the pinned behaviour changed"))
            else:
                negative_ok.append(hn)
            continue
        if st in ("crash", "engine-mismatch", "error"):
            crashes.append((hn, r.get("reason") or r.get("error") or json.dumps(r.get("crosscheck", {}))[:500]))
            if r.get("traceback"):
                print(r["traceback"])
            continue
        if st == "undecided":
            undecided.append((hn, r.get("reason", "solver unknown/timeout")))
            for cn, c in r.get("clauses", {}).items():
                if c["status"] == "unknown":
                    undecided.append((f"{hn}:{cn}", "solver unknown/timeout"))
        for f in hobj.funcs:
            state = "proved" if (r.get("kind") == "proof" and st == "proved") else (
                "bounded" if r.get("kind") == "bounded" else "not-proved")
            prev = funcs.get(f)
            order = {"proved": 2, "bounded": 1, "not-proved": 0}
            if prev is None:
                funcs[f] = state
            elif r.get("kind") == "proof":
                funcs[f] = state if prev == "bounded" or order[state] < order[prev] else prev
        trusted.update(r.get("trusted", []))
        assumed.update(r.get("assumed", []))
        lemmas.update(r.get("lemmas", []))
        shims.update(r.get("shims", []))
        for n in r.get("notes", []):
            if n not in notes:
                notes.append(n)
        solver_s += r.get("solver_s", 0.0)
        if r.get("kind") == "proof":
            xc = r.get("crosscheck", {})
            xc_ok += xc.get("ok", 0)
            xc_models += xc.get("models", 0)
            for cn, c in r.get("clauses", {}).items():
                key = f"obligation:{hn}:{cn}"
                if cn == "dependency-precondition" and prop != "C13":
                    continue  # contract of fractions.Fraction.limit_denominator: reported by the C13 check only
                if c["status"] == "refuted":
                    rep = next((x for x in r.get("refutations", []) if x["clause"] == cn), {})
                    if key in known_keys:
                        known_seen.append((key, known_keys[key]["what"]))
                        continue
                    path = write_replay(prop, hn, cn, rep, r, fp, tier)
                    violations.append((key, path, bool(rep.get("reproduced"))))
                else:
                    named += 1
                    obligations += c["vcs"]
                    discharged += c["discharged"]
                    by_backend["cvc5"] += c.get("cvc5", 0)
                    by_backend["evaluated-concretely"] += c.get("trivial", 0)
                    by_backend["z3"] += c["discharged"] - c.get("cvc5", 0) - c.get("trivial", 0)
                    if c["status"] == "proved":
                        named_ok += 1
                    slowest.append((round(c.get("tmax", 0.0), 3), f"{hn}:{cn}"))
                    if len(samples) < 6:
                        samples.append(dict(obligation=f"{hn}:{cn}", vcs=c["vcs"], discharged=c["discharged"],
                                            solver_s=c.get("time"), status=c["status"]))
        else:
            evals += r.get("evaluations", 0)
            nontriv += r.get("distinct_nontrivial", 0)
            bsamples.extend(r.get("samples", [])[:2])
            if hobj.bound:
                bounded_rules.append(f"{hn}: {hobj.bound}")
            for fnd in r.get("findings", []):
                key = f"input:{fnd['key']}"
                if key in known_keys:
                    known_seen.append((key, known_keys[key]["what"]))
                elif key in elsewhere:
                    notes.append(f"shared harness {hn} re-observed finding {key}, which is recorded under {sorted(set(elsewhere[key]))}, not under {prop}")
                else:
                    path = write_replay(prop, hn, fnd["key"], dict(bounded=fnd), r, fp, tier)
                    violations.append((key, path, True))
            for cn, detail in (r.get("failures") or {}).items():
                key = f"input:{hn}:{cn}"
                if key in known_keys:
                    known_seen.append((key, known_keys[key]["what"]))
                    continue
                path = write_replay(prop, hn, cn, dict(bounded=dict(clause=cn, witness=detail)), r, fp, tier)
                violations.append((key, path, True))
        per_harness.append(dict(name=hn, kind=r.get("kind"), status=st, wall_s=r.get("wall_s"),
                                paths=r.get("paths"), vcs=r.get("vcs"), discharged=r.get("discharged"),
                                evaluations=r.get("evaluations"), solver_s=r.get("solver_s")))

    for key, what in sorted(set(known_seen)):
        print(f"KNOWN-FINDING: property={prop} {key} -- {what}")
    for key, path, reproduced in violations:
        print(f"  violated: {key}")
        print(f"VIOLATION property={prop} replay={path}" + ("" if reproduced else " no-failing-input-found"))
    for hn, why in undecided:
        print(f"UNDECIDED property={prop} obligation={hn} reason={why}")
    for hn, why in crashes:
        print(f"CHECKER-ERROR property={prop} harness={hn} reason={why}")

    level = LEVELS.get(prop, "other")
    wall = time.time() - t0
    cmd = f"./vf check {prop} --tier {tier}"
    ev = dict(
        property_id=prop, tier=tier, seed=seed, level=level, wall_s=round(wall, 2), violations=len(violations),
        coverage=dict(
            obligations=obligations, discharged=discharged, named_obligations=named, named_discharged=named_ok,
            checker_cmd=cmd,
            backends={"z3": z3_version(), "cvc5": "second opinion on z3 'unknown'"},
            discharged_by_backend=by_backend,
            slowest_single_queries_s=sorted(slowest, reverse=True)[:8],
            solver_s=round(solver_s, 2),
            trusted_base=sorted(trusted) + ["CPython 3.12 interpreter, numpy object-dtype dot/inner/prod (executed, not modelled)",
                                            "z3 4.x/5.x SMT solver (cvc5 on unknowns)", "vfw engine (symx.py, harness.py): cross-checked against CPython on %d/%d path models this run" % (xc_ok, xc_models)],
            explanation=EXPLAIN.get(prop, "") + f" Proof side: {named_ok}/{named} named obligations ({discharged}/{obligations} path-level VCs) discharged by z3 on the real function objects of {REPO}/src (tree {fp}). Bounded side (never counted as proved): {evals} run-time contract evaluations.",
            functions_under_contract=funcs,
            assumed_contracts=sorted(assumed), lemmas=sorted(lemmas), shims_exercised=sorted(shims),
            samples=samples + bsamples[:4] or ["none"],
            bounded=dict(evaluations=evals, distinct_nontrivial=nontriv, rule="; ".join(bounded_rules) or "n/a", samples=bsamples[:6]),
            evaluations=max(evals, 1), distinct_nontrivial=max(nontriv, 0),
            rule="bounded stand-in families: " + ("; ".join(bounded_rules) or "none"),
            known_findings=[k for k, _ in sorted(set(known_seen))],
            must_be_refuted_ok=negative_ok,
            undecided=[u for u, _ in undecided],
            harnesses=per_harness, tree=fp, exhaustive=False,
        ),
        assumptions=ASSUMPTIONS + sorted(assumed) + ["lemma: " + l for l in sorted(lemmas)] + notes,
    )
    with open(os.path.join(evdir, f"{prop}.json"), "w") as f:
        json.dump(ev, f, indent=1, default=str)
    code = 0
    if crashes:
        code = 3
    if undecided:
        code = 2
    if violations:
        code = 1
    print(f"{prop} tier={tier}: {named_ok}/{named} obligations, {discharged}/{obligations} VCs, bounded evals={evals}, "
          f"known={len(set(known_seen))}, violations={len(violations)}, undecided={len(undecided)}, wall={wall:.1f}s -> exit {code}")
    return code


def z3_version():
    try:
        import z3

        return z3.get_version_string()
    except Exception:
        return "?"


def write_replay(prop, hn, clause, rep, r, fp, tier):
    body = dict(property=prop, harness=hn, clause=clause, tier=tier, tree=fp, refutation=rep,
                values=(rep or {}).get("model"), solver_output=(rep or {}).get("detail"),
                harness_status=r.get("status"), note=r.get("note"), funcs=r.get("funcs"))
    tag = hashlib.sha256(json.dumps([hn, clause], sort_keys=True).encode()).hexdigest()[:10]
    rdir = os.environ.get("VF_REPLAY_DIR") or os.path.join(ROOT, "replays")
    os.makedirs(rdir, exist_ok=True)
    path = os.path.join(rdir, f"{prop}-{tag}.json")
    with open(path, "w") as f:
        json.dump(body, f, indent=1, default=str)
    return path


def cmd_replay(path):
    body = json.load(open(path))
    reg = load_harnesses()
    hobj = reg.get(body["harness"])
    print(f"replay of {body['harness']} clause {body['clause']} (property {body['property']})")
    if hobj is None:
        print("harness no longer exists")
        return 2
    from . import harness

    if hobj.kind == "bounded":
        r = harness.run_bounded(hobj, body.get("tier", "quick"), 0)
        fails = r.get("failures") or {}
        keys = [f["key"] for f in r.get("findings", [])]
        print(json.dumps(dict(status=r["status"], failures=fails, findings=keys), indent=1, default=str))
        return 1 if (body["clause"] in fails or body["clause"] in keys) else 0
    if not body.get("values"):
        print("abstract counterexample (no concrete input): obligation", body["harness"], body["clause"])
        print(body.get("solver_output"))
        return 0
    r = harness.run_concrete(hobj, body["values"], body.get("tier", "quick"))
    print(json.dumps(r, indent=1, default=str))
    if body["clause"] == "no-unexpected-exception":
        return 1 if r["outcome"] == "exception" else 0
    return 1 if r["clauses"].get(body["clause"]) is False else 0


def main(argv=None):
    ap = argparse.ArgumentParser(prog="vf")
    sub = ap.add_subparsers(dest="cmd", required=True)
    c = sub.add_parser("check")
    c.add_argument("prop")
    c.add_argument("--tier", default=os.environ.get("VERIF_TIER", "quick"), choices=["quick", "thorough"])
    c.add_argument("--jobs", type=int, default=int(os.environ.get("VF_JOBS", "16")))
    c.add_argument("--only", action="append")
    c.add_argument("-v", action="store_true")
    r = sub.add_parser("replay")
    r.add_argument("path")
    sub.add_parser("list")
    s = sub.add_parser("selftest")
    s.add_argument("--only", action="append")
    s.add_argument("--tier", default="quick")
    args = ap.parse_args(argv)
    _setup_path()
    if args.cmd == "check":
        seed = int(os.environ.get("VERIF_SEED", "0") or 0)
        return cmd_check(args.prop, args.tier, seed, args.jobs, args.only, args.v)
    if args.cmd == "replay":
        return cmd_replay(args.path)
    if args.cmd == "list":
        reg = load_harnesses()
        for n, h in sorted(reg.items()):
            print(f"{n:60s} {h.kind:8s} {h.tier:8s} {','.join(h.props)}")
        return 0
    if args.cmd == "selftest":
        from . import selftest

        return selftest.main(args.only, args.tier)


from .meta import ASSUMPTIONS, EXPLAIN, LEVELS  # noqa: E402

if __name__ == "__main__":
    sys.exit(main())
