"""Spec functions (DESIGN 2.4): pure mathematics, written without any shapepy code, polymorphic in
Sym / Fraction / float.  Univariate polynomials are coefficient lists [c0, c1, ...] (low to high)."""
from __future__ import annotations

from fractions import Fraction
from math import comb


# ---- polynomials in t with coefficients in any ring supporting + - *
def padd(p, q):
    n = max(len(p), len(q))
    return [(p[i] if i < len(p) else 0) + (q[i] if i < len(q) else 0) for i in range(n)]


def pscale(p, c):
    return [c * a for a in p]


def pmul(p, q):
    if not p or not q:
        return []
    r = [0] * (len(p) + len(q) - 1)
    for i, a in enumerate(p):
        for j, b in enumerate(q):
            r[i + j] = r[i + j] + a * b
    return r


def ppow(p, n):
    r = [1]
    for _ in range(n):
        r = pmul(r, p)
    return r


def pderiv(p):
    return [i * p[i] for i in range(1, len(p))] or [0]


def pint01(p):
    """exact integral over [0, 1]"""
    tot = 0
    for i, a in enumerate(p):
        tot = tot + a * Fraction(1, i + 1)
    return tot


def peval(p, t):
    r = 0
    for a in reversed(p):
        r = r * t + a
    return r


def pcompose_affine(p, a, b):
    """p(a + b*s) as a polynomial in s"""
    r = [0]
    lin = [a, b]
    for c in reversed(p):
        r = padd(pmul(r, lin), [c])
    return r


def bernstein_poly(coords):
    """Bernstein form with scalar control values coords[0..n] -> monomial coefficient list, computed
    from the definition  sum_i C(n,i) t^i (1-t)^(n-i) P_i  (independent of bezier_caract_matrix)."""
    n = len(coords) - 1
    total = [0]
    for i, c in enumerate(coords):
        basis = pscale(pmul(ppow([0, 1], i), ppow([1, -1], n - i)), comb(n, i))
        total = padd(total, pscale(basis, c))
    return total + [0] * (n + 1 - len(total))


def bezier_xy(ctrl):
    """ctrl: list of (x, y) -> (px, py) polynomials"""
    return bernstein_poly([c[0] for c in ctrl]), bernstein_poly([c[1] for c in ctrl])


def bezier_eval(ctrl, t):
    px, py = bezier_xy(ctrl)
    return peval(px, t), peval(py, t)


def de_casteljau_split(ctrl, t):
    """control points of the two halves of a Bezier curve split at t (pure de Casteljau)."""
    pts = [tuple(c) for c in ctrl]
    left = [pts[0]]
    right = [pts[-1]]
    while len(pts) > 1:
        pts = [((1 - t) * a[0] + t * b[0], (1 - t) * a[1] + t * b[1]) for a, b in zip(pts[:-1], pts[1:])]
        left.append(pts[0])
        right.append(pts[-1])
    return left, right[::-1]


def vertical_integral(ctrl, a, b):
    """exact  int_0^1 x(t)^a y(t)^b y'(t) dt"""
    px, py = bezier_xy(ctrl)
    integrand = pmul(pmul(ppow(px, a), ppow(py, b)), pderiv(py))
    return pint01(integrand)


def cross(u, v):
    return u[0] * v[1] - u[1] * v[0]


def dot(u, v):
    return u[0] * v[0] + u[1] * v[1]


def sub(p, q):
    return (p[0] - q[0], p[1] - q[1])


def polygon_area2(pts):
    """twice the signed area (shoelace)"""
    tot = 0
    n = len(pts)
    for i in range(n):
        tot = tot + cross(pts[i], pts[(i + 1) % n])
    return tot


def closed_curve_area(segs):
    """exact signed area enclosed by a closed chain of Bezier segments: sum of int x dy"""
    tot = 0
    for ctrl in segs:
        tot = tot + vertical_integral(ctrl, 1, 0)
    return tot


def region_moment(segs, a, b):
    """Green: int_D x^a y^b dA = 1/(a+1) * sum over boundary segments int x^(a+1) y^b dy"""
    tot = 0
    for ctrl in segs:
        tot = tot + vertical_integral(ctrl, a + 1, b)
    return tot * Fraction(1, a + 1)


def affine(kind, params, p):
    x, y = p
    if kind == "move":
        return (x + params[0], y + params[1])
    if kind == "scale":
        return (x * params[0], y * params[1])
    if kind == "rotate":  # params = (cos, sin)
        c, s = params
        return (c * x - s * y, s * x + c * y)
    raise ValueError(kind)
