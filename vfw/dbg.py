"""debug: run one harness in-process and print details:  ./vf-dbg <name>"""
import sys, json, time
from vfw import cli
cli._setup_path()
reg = cli.load_harnesses()
from vfw import harness
name = sys.argv[1]
tier = sys.argv[2] if len(sys.argv) > 2 else "quick"
r = harness.run_task(name, tier, 0, budget_s=int(sys.argv[3]) if len(sys.argv) > 3 else 600)
print(json.dumps(r, indent=1, default=str)[:6000])
