"""Engine SX: path-exhaustive symbolic execution of the *real* shapepy function objects.

Numbers are z3-backed proxies (`Sym`), everything discrete (classes, lengths, identities) is
concrete.  `bool()` of a symbolic comparison is a branch point; the engine re-executes the harness
from scratch for every path (depth-first over the decision tree).  See DESIGN.md 2.2 / 2.9.
"""
from __future__ import annotations

import builtins
import fractions
import math
import time

import numpy as np
import z3


class Unsupported(Exception):
    """The engine cannot model a construct: the harness becomes *undecided* (never green/red)."""


class Infeasible(Exception):
    """Current path condition is unsatisfiable: path is dropped."""


class PathBudget(Exception):
    pass


FEAS_TIMEOUT_MS = 2000


class Engine:
    cur: "Engine" = None

    def __init__(self, max_paths=5000, feas_timeout_ms=FEAS_TIMEOUT_MS):
        self.solver = z3.Solver()
        self.solver.set("timeout", feas_timeout_ms)
        self.prefix = []  # list of [decision, other_done]
        self.pos = 0
        self.pc = []
        self.assumptions = []
        self.nchecks = 0
        self.unknowns = 0
        self.fresh = 0
        self.max_paths = max_paths
        self.allow_hash = False
        self.dep_violations = []
        self.shims_hit = set()
        self.solver_s = 0.0

    # -- per path
    def reset_run(self):
        self.pos = 0
        self.pc = []
        self.assumptions = []
        self.fresh = 0
        self.dep_violations = []
        self.__dict__.pop("_intcache", None)
        self.__dict__.pop("_trig", None)
        self.__dict__.pop("_atan", None)
        self.__dict__.pop("_sqrtcache", None)

    def hyps(self):
        return list(self.pc) + list(self.assumptions)

    def feasible(self, cond):
        self.nchecks += 1
        s = self.solver
        t0 = time.time()
        s.push()
        for c in self.pc:
            s.add(c)
        for c in self.assumptions:
            s.add(c)
        s.add(cond)
        r = s.check()
        s.pop()
        self.solver_s += time.time() - t0
        if r == z3.unknown:
            self.unknowns += 1
            return True
        return r == z3.sat

    def decide(self, cond):
        cond = z3.simplify(cond)
        if z3.is_true(cond):
            return True
        if z3.is_false(cond):
            return False
        if self.pos < len(self.prefix):
            d = self.prefix[self.pos][0]
            self.pos += 1
            self.pc.append(cond if d else z3.Not(cond))
            return d
        t_ok = self.feasible(cond)
        f_ok = self.feasible(z3.Not(cond))
        if t_ok and f_ok:
            self.prefix.append([True, False])
            d = True
        elif t_ok:
            self.prefix.append([True, True])
            d = True
        elif f_ok:
            self.prefix.append([False, True])
            d = False
        else:
            raise Infeasible()
        self.pos += 1
        self.pc.append(cond if d else z3.Not(cond))
        return d

    def choose(self, n, tag="choice"):
        """Non-deterministic choice among n alternatives (used by stubs: return / raise)."""
        self.fresh += 1
        for i in range(n - 1):
            b = z3.Bool(f"{tag}!{self.fresh}!{i}")
            if self.decide(b):
                return i
        return n - 1

    def assume(self, cond):
        if isinstance(cond, SymBool):
            cond = cond.t
        if isinstance(cond, bool):
            if not cond:
                raise Infeasible()
            return
        self.assumptions.append(cond)

    def backtrack(self):
        while self.prefix and self.prefix[-1][1]:
            self.prefix.pop()
        if not self.prefix:
            return False
        self.prefix[-1] = [not self.prefix[-1][0], True]
        return True

    def fresh_real(self, name="v", mode="Q"):
        self.fresh += 1
        return Sym(z3.Real(f"{name}!{self.fresh}"), mode)

    def fresh_bool(self, name="b"):
        self.fresh += 1
        return SymBool(z3.Bool(f"{name}!{self.fresh}"))

    def fresh_int(self, name="i"):
        self.fresh += 1
        return z3.Int(f"{name}!{self.fresh}")


def explore(fn, engine=None):
    """Run fn() over all feasible paths.  Returns (engine, [ (kind, value) ]).

    kind: 'ret' | 'exc' | 'unsupported'.  fn itself is responsible for recording obligations.
    """
    eng = engine or Engine()
    Engine.cur = eng
    paths = []
    while True:
        eng.reset_run()
        try:
            val = fn()
            paths.append(("ret", val))
        except Infeasible:
            pass
        except Unsupported as e:
            paths.append(("unsupported", e))
        except PathBudget:
            raise
        if len(paths) > eng.max_paths:
            raise PathBudget(f"more than {eng.max_paths} paths")
        if not eng.backtrack():
            break
    return eng, paths


# --------------------------------------------------------------------------- numbers

def lift(x):
    """Python number -> z3 real term (exact).  None if x is not a number."""
    if isinstance(x, Sym):
        return x.t
    if isinstance(x, (bool, np.bool_)):
        return None
    if isinstance(x, (int, np.integer)):
        return z3.RealVal(int(x))
    if isinstance(x, fractions.Fraction):
        return z3.Q(x.numerator, x.denominator)
    if isinstance(x, (float, np.floating)):
        x = float(x)
        if x != x or x in (math.inf, -math.inf):
            raise Unsupported("nan/inf in symbolic arithmetic")
        fr = fractions.Fraction(x)
        return z3.Q(fr.numerator, fr.denominator)
    return None


def mode_of(x):
    if isinstance(x, Sym):
        return x.mode
    if isinstance(x, (bool, np.bool_)):
        return None
    if isinstance(x, (int, np.integer)):
        return "I"
    if isinstance(x, fractions.Fraction):
        return "Q"
    if isinstance(x, (float, np.floating)):
        return "F"
    return None


_RANK = {"I": 0, "Q": 1, "F": 2}


def join_mode(a, b, op="+"):
    if a == "F" or b == "F":
        return "F"
    if op == "/":
        if a == "I" and b == "I":
            return "F"  # int / int is a float in Python
        return "Q"
    return a if _RANK[a] >= _RANK[b] else b


class SymBool:
    __slots__ = ("t",)

    def __init__(self, t):
        self.t = t

    def __bool__(self):
        return Engine.cur.decide(self.t)

    def __repr__(self):
        return f"SymBool({self.t})"


def _simp(t):
    return z3.simplify(t, som=False)


class Sym:
    __slots__ = ("t", "mode")
    __array_ufunc__ = None
    __array_priority__ = 1000

    def __init__(self, t, mode="Q"):
        self.t = t
        self.mode = mode

    def _bin(self, o, f, op, swap=False):
        b = lift(o)
        if b is None:
            return NotImplemented
        mode = join_mode(self.mode, mode_of(o), op) if not swap else join_mode(mode_of(o), self.mode, op)
        return Sym(_simp(f(b, self.t) if swap else f(self.t, b)), mode)

    def __add__(s, o):
        return s._bin(o, lambda a, b: a + b, "+")

    def __radd__(s, o):
        return s._bin(o, lambda a, b: a + b, "+", True)

    def __sub__(s, o):
        return s._bin(o, lambda a, b: a - b, "+")

    def __rsub__(s, o):
        return s._bin(o, lambda a, b: a - b, "+", True)

    def __mul__(s, o):
        return s._bin(o, lambda a, b: a * b, "+")

    def __rmul__(s, o):
        return s._bin(o, lambda a, b: a * b, "+", True)

    def _div(s, o, swap):
        b = lift(o)
        if b is None:
            return NotImplemented
        num, den = (b, s.t) if swap else (s.t, b)
        if not Engine.cur.decide(den != 0):
            raise ZeroDivisionError("symbolic division by zero")
        mode = join_mode(mode_of(o), s.mode, "/") if swap else join_mode(s.mode, mode_of(o), "/")
        return Sym(_simp(num / den), mode)

    def __truediv__(s, o):
        return s._div(o, False)

    def __rtruediv__(s, o):
        return s._div(o, True)

    def __neg__(s):
        return Sym(_simp(-s.t), s.mode)

    def __pos__(s):
        return s

    def __abs__(s):
        return Sym(_simp(z3.If(s.t >= 0, s.t, -s.t)), s.mode)

    def __pow__(s, n):
        if isinstance(n, (np.integer,)):
            n = int(n)
        if not isinstance(n, int) or isinstance(n, bool) or n < 0:
            raise Unsupported(f"pow with exponent {n!r}")
        r = z3.RealVal(1)
        for _ in range(n):
            r = r * s.t
        return Sym(_simp(r), s.mode)

    def _cmp(s, o, f):
        b = lift(o)
        if b is None:
            return NotImplemented
        return SymBool(f(s.t, b))

    def __lt__(s, o):
        return s._cmp(o, lambda a, b: a < b)

    def __le__(s, o):
        return s._cmp(o, lambda a, b: a <= b)

    def __gt__(s, o):
        return s._cmp(o, lambda a, b: a > b)

    def __ge__(s, o):
        return s._cmp(o, lambda a, b: a >= b)

    def __eq__(s, o):
        r = s._cmp(o, lambda a, b: a == b)
        return False if r is NotImplemented else r

    def __ne__(s, o):
        r = s._cmp(o, lambda a, b: a != b)
        return True if r is NotImplemented else r

    def __bool__(s):
        return Engine.cur.decide(s.t != 0)

    def __hash__(s):
        if Engine.cur is not None and Engine.cur.allow_hash:
            return id(s)
        raise Unsupported("hash of a symbolic number (A7)")

    def __float__(s):
        raise Unsupported("builtin float() of a symbolic number reached a non-shimmed site")

    def __round__(s, nd=None):
        raise Unsupported("round() of a symbolic number")

    def __int__(s):
        raise Unsupported("builtin int() of a symbolic number")

    @property
    def numerator(s):
        raise Unsupported("numerator of a symbolic rational")

    @property
    def denominator(s):
        raise Unsupported("denominator of a symbolic rational")

    def limit_denominator(s, max_denominator=1000000):
        # dependency contract of fractions.Fraction.limit_denominator: the bound is an int >= 1;
        # under A2 (denominator <= bound) it is the identity.
        if not isinstance(max_denominator, int) or isinstance(max_denominator, bool):
            Engine.cur.dep_violations.append(
                "Fraction.limit_denominator: max_denominator must be an int, got %r (%s)"
                % (max_denominator, type(max_denominator).__name__)
            )
        return s

    def __repr__(s):
        return f"Sym[{s.mode}]({s.t})"


def is_sym(x):
    return isinstance(x, (Sym, SymBool))


# --------------------------------------------------------------------------- shims (2.1 item 2)

class _FracMeta(type):
    def __instancecheck__(cls, obj):
        if isinstance(obj, Sym):
            return obj.mode in ("Q",)
        return isinstance(obj, fractions.Fraction)


class FractionShim(metaclass=_FracMeta):
    def __new__(cls, *a, **k):
        if len(a) == 1 and not k and isinstance(a[0], Sym):
            s = a[0]
            if s.mode == "F":
                raise Unsupported("Fraction(float-mode symbolic)")
            return Sym(s.t, "Q")
        if any(isinstance(x, Sym) for x in a):
            if len(a) == 2:
                return a[0] / a[1] if mode_of(a[0]) != "I" or mode_of(a[1]) != "I" else Sym((a[0] / a[1]).t, "Q")
            raise Unsupported("Fraction(...) with symbolic arguments")
        return fractions.Fraction(*a, **k)


class _IntMeta(type):
    def __instancecheck__(cls, obj):
        if isinstance(obj, Sym):
            return obj.mode == "I"
        return isinstance(obj, builtins.int)


class IntShim(metaclass=_IntMeta):
    """module-level `int` while a symbolic run is active: isinstance works on mode-I symbols,
    int(x) on a symbolic value gives a fresh value i with i <= x < i + 1 (integrality dropped:
    an over-approximation, sound for proving)."""

    def __new__(cls, *a, **k):
        if len(a) == 1 and isinstance(a[0], Sym):
            s = a[0]
            if s.mode == "I":
                return s
            eng = Engine.cur
            eng.shims_hit.add("int(sym)")
            cache = eng.__dict__.setdefault("_intcache", {})
            key = s.t.get_id()
            if key in cache and cache[key][0].eq(s.t):
                return cache[key][1]
            i = eng.fresh_real("int", "I")
            eng.assume(z3.If(s.t >= 0, z3.And(i.t <= s.t, s.t < i.t + 1), z3.And(i.t >= s.t, s.t > i.t - 1)))
            cache[key] = (s.t, i)
            return i
        return builtins.int(*a, **k)


class _FractionsModShim:
    Fraction = FractionShim


def sym_float(x=0.0):
    if isinstance(x, Sym):
        return Sym(x.t, "F")
    if isinstance(x, (builtins.int, builtins.float, fractions.Fraction, np.generic, str, bytes)):
        return builtins.float(x)
    tf = getattr(type(x), "__float__", None)
    if tf is not None:
        r = tf(x)
        if isinstance(r, Sym):
            return Sym(r.t, "F")
        return builtins.float(r)
    return builtins.float(x)


def _flatten_args(args):
    if len(args) == 1:
        return list(args[0])
    return list(args)


def sym_min(*args, **kw):
    xs = _flatten_args(args)
    if kw or not any(isinstance(x, Sym) for x in xs):
        return builtins.min(xs, **kw)
    Engine.cur.shims_hit.add("min")
    acc = xs[0]
    for x in xs[1:]:
        a, b = lift(acc), lift(x)
        acc = Sym(_simp(z3.If(b < a, b, a)), join_mode(mode_of(acc), mode_of(x)))
    return acc


def sym_max(*args, **kw):
    xs = _flatten_args(args)
    if kw or not any(isinstance(x, Sym) for x in xs):
        return builtins.max(xs, **kw)
    Engine.cur.shims_hit.add("max")
    acc = xs[0]
    for x in xs[1:]:
        a, b = lift(acc), lift(x)
        acc = Sym(_simp(z3.If(b > a, b, a)), join_mode(mode_of(acc), mode_of(x)))
    return acc


def sym_round(x, nd=None):
    if isinstance(x, Sym):
        raise Unsupported("round() of symbolic number")
    return builtins.round(x) if nd is None else builtins.round(x, nd)


COS = z3.Function("COS", z3.RealSort(), z3.RealSort())
SIN = z3.Function("SIN", z3.RealSort(), z3.RealSort())


class TrigTable:
    """cos/sin of symbolic angles: one pair of fresh constants (c, s) per distinct angle term with
    c*c + s*s = 1 (A4).  Fresh constants instead of applications keep uninterpreted functions out of
    nonlinear queries (a sound generalisation)."""

    def __init__(self):
        self.table = {}

    def get(self, ang: "Sym"):
        key = ang.t.sexpr()
        eng = Engine.cur
        store = eng.__dict__.setdefault("_trig", {})
        if key not in store:
            n = len(store)
            c = z3.Real(f"cos!{n}")
            s = z3.Real(f"sin!{n}")
            store[key] = (c, s, ang.t)
            eng.assume(c * c + s * s == 1)
        c, s, _ = store[key]
        return Sym(c, "F"), Sym(s, "F")


_TRIG = TrigTable()


class _NpShim:
    """proxy of the numpy module: trig functions understand symbolic angles (A4)."""

    def __getattr__(self, name):
        return getattr(np, name)

    @staticmethod
    def cos(x):
        if isinstance(x, Sym):
            Engine.cur.shims_hit.add("np.cos")
            return _TRIG.get(x)[0]
        return np.cos(x)

    @staticmethod
    def sin(x):
        if isinstance(x, Sym):
            Engine.cur.shims_hit.add("np.sin")
            return _TRIG.get(x)[1]
        return np.sin(x)

    @staticmethod
    def tan(x):
        if isinstance(x, Sym):
            raise Unsupported("np.tan of a symbolic number")
        return np.tan(x)

    @staticmethod
    def arctan2(y, x):
        if isinstance(x, Sym) or isinstance(y, Sym):
            # A4: only the *range* of atan2 is modelled: a fresh angle in [-pi, pi] per (y, x) term pair
            eng = Engine.cur
            eng.shims_hit.add("np.arctan2(range only)")
            cache = eng.__dict__.setdefault("_atan", {})
            key = (lift(y).sexpr(), lift(x).sexpr())
            if key not in cache:
                a = eng.fresh_real("atan2", "F")
                pi = lift(math.pi)
                eng.assume(z3.And(a.t >= -pi, a.t <= pi))
                cache[key] = a
            return cache[key]
        return np.arctan2(y, x)


def _nonneg_syntactic(t, depth=0):
    """conservative syntactic test: t is a sum of non-negative numerals and of products that are squares
    (a*a, a**2, c*a*a with c >= 0)."""
    if depth > 6:
        return False
    if z3.is_rational_value(t) or z3.is_int_value(t):
        v, _ = z3val_to_fraction(t)
        return v >= 0
    if not z3.is_app(t):
        return False
    k = t.decl().kind()
    ch = t.children()
    if k == z3.Z3_OP_ADD:
        return all(_nonneg_syntactic(c, depth + 1) for c in ch)
    if k == z3.Z3_OP_POWER:
        return z3.is_int_value(ch[1]) or z3.is_rational_value(ch[1]) and ch[1].as_long() % 2 == 0 if False else (z3.is_rational_value(ch[1]) or z3.is_int_value(ch[1])) and int(str(ch[1])) % 2 == 0
    if k == z3.Z3_OP_MUL:
        consts = [c for c in ch if z3.is_rational_value(c) or z3.is_int_value(c)]
        rest = [c for c in ch if not (z3.is_rational_value(c) or z3.is_int_value(c))]
        sign_ok = all(z3val_to_fraction(c)[0] >= 0 for c in consts)
        if not sign_ok:
            return False
        # pair up identical factors
        ids = {}
        for c in rest:
            if c.decl().kind() == z3.Z3_OP_POWER and _nonneg_syntactic(c, depth + 1):
                continue
            ids[c.get_id()] = ids.get(c.get_id(), 0) + 1
        return all(n % 2 == 0 for n in ids.values())
    return False


class _MathShim:
    def __getattr__(self, name):
        return getattr(math, name)

    @staticmethod
    def sqrt(x):
        if isinstance(x, Sym):
            eng = Engine.cur
            eng.shims_hit.add("math.sqrt")
            if _nonneg_syntactic(x.t):
                eng.assume(x.t >= 0)  # a valid fact (sum of squares), stated for the solver's benefit
            elif not eng.decide(x.t >= 0):
                raise ValueError("math domain error")
            cache = eng.__dict__.setdefault("_sqrtcache", {})
            key = x.t.get_id()
            if key in cache and cache[key][0].eq(x.t):
                return cache[key][1]  # the square root is a function: same term, same value
            s = eng.fresh_real("sqrt", "F")
            eng.assume(z3.And(s.t >= 0, s.t * s.t == x.t))
            cache[key] = (x.t, s)
            return s
        return math.sqrt(x)


NP = _NpShim()
MATH = _MathShim()

_SAVED = []


def install():
    """Patch module-level *names* of the shapepy modules (never function bodies)."""
    if _SAVED:
        return
    import shapepy.curve as C
    import shapepy.jordancurve as J
    import shapepy.polygon as P
    import shapepy.primitive as PR
    import shapepy.shape as S

    mods = [P, C, J, S, PR]
    try:
        import shapepy.plot as PL

        mods.append(PL)
    except Exception:  # matplotlib missing: plot proofs become undecided, not wrong
        pass

    def setg(mod, name, val):
        d = mod.__dict__
        _SAVED.append((mod, name, d.get(name, _MISSING)))
        d[name] = val

    for m in mods:
        if "fractions" in m.__dict__:
            setg(m, "fractions", _FractionsModShim)
        if "Fraction" in m.__dict__:
            setg(m, "Fraction", FractionShim)
        setg(m, "float", sym_float)
        setg(m, "int", IntShim)
        setg(m, "min", sym_min)
        setg(m, "max", sym_max)
        setg(m, "round", sym_round)
        if "np" in m.__dict__:
            setg(m, "np", NP)
        if "math" in m.__dict__:
            setg(m, "math", MATH)


_MISSING = object()


def uninstall():
    while _SAVED:
        mod, name, old = _SAVED.pop()
        if old is _MISSING:
            mod.__dict__.pop(name, None)
        else:
            mod.__dict__[name] = old


# --------------------------------------------------------------------------- solver helpers

def z3val_to_fraction(v):
    """z3 numeral -> Fraction (exact for rationals; algebraic numbers are approximated, flagged)."""
    if z3.is_rational_value(v):
        return fractions.Fraction(v.numerator_as_long(), v.denominator_as_long()), True
    if z3.is_int_value(v):
        return fractions.Fraction(v.as_long()), True
    if z3.is_algebraic_value(v):
        a = v.approx(30)
        return fractions.Fraction(a.numerator_as_long(), a.denominator_as_long()), False
    raise ValueError(f"cannot convert {v}")


_LIN = {}


def is_linear(t):
    """no product of two non-constant factors, no division by a non-constant, no quantifier/uninterpreted function"""
    k = t.get_id()
    if k in _LIN:
        return _LIN[k]
    ok = True
    stack = [t]
    seen = set()
    while stack and ok:
        u = stack.pop()
        i = u.get_id()
        if i in seen:
            continue
        seen.add(i)
        if z3.is_quantifier(u):
            ok = False
            break
        if z3.is_app(u):
            kind = u.decl().kind()
            ch = u.children()
            if kind == z3.Z3_OP_MUL and sum(1 for c in ch if not z3.is_rational_value(c) and not z3.is_int_value(c)) > 1:
                ok = False
            elif kind in (z3.Z3_OP_DIV, z3.Z3_OP_IDIV) and not (z3.is_rational_value(ch[1]) or z3.is_int_value(ch[1])):
                ok = False
            elif kind == z3.Z3_OP_POWER or (kind == z3.Z3_OP_UNINTERPRETED and ch):
                ok = False
            stack.extend(ch)
    if len(_LIN) > 200000:
        _LIN.clear()
    _LIN[k] = ok
    return ok


def check_staged(hyps, goal, timeout_ms=20000):
    """as check(); when the goal is linear, first try with the linear hypotheses only (proving from fewer
    hypotheses is sound; nonlinear side hypotheses make z3 slow on goals that do not need them)."""
    if hyps and is_linear(goal):
        lin = [h for h in hyps if is_linear(h)]
        if len(lin) < len(hyps):
            st, model, dt = check(lin, goal, min(timeout_ms, 5000))
            if st == "unsat":
                return st, model, dt
            st2, model2, dt2 = check(hyps, goal, timeout_ms)
            return st2, model2, dt + dt2
    return check(hyps, goal, timeout_ms)


def check(hyps, goal, timeout_ms=20000):
    """Validity of (hyps => goal).  Returns (status, model|None, seconds), status in
    'unsat' (proved) | 'sat' (refuted) | 'unknown'."""
    s = z3.Solver()
    s.set("timeout", timeout_ms)
    for c in hyps:
        s.add(c)
    s.add(z3.Not(goal))
    t0 = time.time()
    r = s.check()
    dt = time.time() - t0
    if r == z3.sat:
        return "sat", s.model(), dt
    if r == z3.unsat:
        return "unsat", None, dt
    return "unknown", None, dt


def smt2(hyps, goal):
    s = z3.Solver()
    for c in hyps:
        s.add(c)
    s.add(z3.Not(goal))
    return s.to_smt2()


def check_cvc5(hyps, goal, timeout_ms=20000):
    """Second opinion: the same query through cvc5's SMT-LIB2 front end."""
    import cvc5

    text = smt2(hyps, goal)
    slv = cvc5.Solver()
    slv.setOption("tlimit-per", str(timeout_ms))
    slv.setLogic("ALL")
    ip = cvc5.InputParser(slv)
    ip.setStringInput(cvc5.InputLanguage.SMT_LIB_2_6, text, "q")
    sm = ip.getSymbolManager()
    t0 = time.time()
    res = None
    while True:
        cmd = ip.nextCommand()
        if cmd.isNull():
            break
        out = cmd.invoke(slv, sm)
        if "unsat" in str(out):
            res = "unsat"
        elif "sat" in str(out):
            res = "sat"
        elif "unknown" in str(out):
            res = "unknown"
    return res or "unknown", time.time() - t0
