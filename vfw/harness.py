"""Harness layer: one contract text, two back ends (DESIGN 2.4).

A *harness* is a Python function `fn(h)` that builds inputs through `h.real()/h.int()`, calls the
real shapepy functions and states contract clauses through `h.ensure(name, cond)`.

* mode 'sym'  : inputs are `Sym`; every `ensure` is a solver query under the current path
                condition; the engine enumerates all paths.
* mode 'conc' : inputs are concrete Fractions/floats (from a counter-model, a cross-check model
                or a replay file); the same clauses evaluate to plain bools on the unshimmed code.
"""
from __future__ import annotations

import fractions
import signal
import time
import traceback
from contextlib import contextmanager

import z3

from . import symx
from .symx import Engine, Infeasible, PathBudget, Sym, SymBool, Unsupported

Fraction = fractions.Fraction

REGISTRY = {}  # name -> Harness


class Harness:
    def __init__(self, fn, name, prop, kind, funcs, tier, note, abstract, expect, timeout, props, max_paths, bound):
        self.fn = fn
        self.name = name
        self.prop = prop
        self.props = props or [prop]
        self.kind = kind  # 'proof' | 'bounded'
        self.funcs = funcs
        self.tier = tier
        self.note = note
        self.abstract = abstract
        self.expect = expect
        self.timeout = timeout
        self.max_paths = max_paths
        self.bound = bound


def proof(name, prop, funcs=(), tier="quick", note="", abstract=False, expect="proved", timeout=None, props=None,
          max_paths=5000):
    def deco(fn):
        REGISTRY[name] = Harness(fn, name, prop, "proof", list(funcs), tier, note, abstract, expect, timeout, props,
                                 max_paths, None)
        return fn

    return deco


def bounded(name, prop, funcs=(), tier="quick", note="", bound="", timeout=None, props=None):
    def deco(fn):
        REGISTRY[name] = Harness(fn, name, prop, "bounded", list(funcs), tier, note, False, "held", timeout, props, 0,
                                 bound)
        return fn

    return deco


# ------------------------------------------------------------------ polymorphic logic

def T(x):
    """bool / SymBool / z3 -> z3 Bool"""
    if isinstance(x, SymBool):
        return x.t
    if isinstance(x, (bool,)):
        return z3.BoolVal(x)
    if isinstance(x, z3.BoolRef):
        return x
    if x is True or x is False:
        return z3.BoolVal(bool(x))
    try:
        import numpy as np

        if isinstance(x, np.bool_):
            return z3.BoolVal(bool(x))
    except Exception:
        pass
    raise TypeError(f"not a boolean spec value: {x!r}")


def _anysym(xs):
    return any(isinstance(x, (SymBool, z3.BoolRef)) for x in xs)


def AND(*xs):
    xs = [x for x in _flat(xs)]
    if _anysym(xs):
        return SymBool(z3.And(*[T(x) for x in xs])) if xs else True
    return all(bool(x) for x in xs)


def OR(*xs):
    xs = [x for x in _flat(xs)]
    if _anysym(xs):
        return SymBool(z3.Or(*[T(x) for x in xs]))
    return any(bool(x) for x in xs)


def NOT(x):
    if _anysym([x]):
        return SymBool(z3.Not(T(x)))
    return not bool(x)


def IMPLIES(a, b):
    if _anysym([a, b]):
        return SymBool(z3.Implies(T(a), T(b)))
    return (not bool(a)) or bool(b)


def IFF(a, b):
    if _anysym([a, b]):
        return SymBool(T(a) == T(b))
    return bool(a) == bool(b)


def _flat(xs):
    for x in xs:
        if isinstance(x, (list, tuple)) or hasattr(x, "__next__"):
            yield from _flat(x)
        else:
            yield x


def _isnum(x):
    return symx.mode_of(x) is not None


def EQ(a, b, tol=None):
    """value equality of numbers / tuples of numbers / points.  Exact in symbolic mode and for
    exact rationals; 1e-9 relative for concrete floats (cross-check of mode-F runs)."""
    if _isnum(a) and _isnum(b):
        if isinstance(a, Sym) or isinstance(b, Sym):
            return SymBool(symx.lift(a) == symx.lift(b))
        if symx.mode_of(a) == "F" or symx.mode_of(b) == "F":
            t = 1e-9 if tol is None else tol
            return abs(float(a) - float(b)) <= t * (1 + abs(float(a)) + abs(float(b)))
        return a == b
    la, lb = list(a), list(b)
    if len(la) != len(lb):
        return False
    return AND(*[EQ(x, y, tol) for x, y in zip(la, lb)])


def ITE(c, a, b):
    if isinstance(c, (SymBool, z3.BoolRef)):
        return Sym(z3.If(T(c), symx.lift(a), symx.lift(b)), symx.join_mode(symx.mode_of(a), symx.mode_of(b)))
    return a if c else b


def ABS(a):
    return abs(a)


def is_exact(x):
    """mode check: x is an int/Fraction (concrete) or a mode-I/Q symbol -- a sound type abstraction."""
    m = symx.mode_of(x)
    return m in ("I", "Q")


def is_wellformed_fraction(x):
    if isinstance(x, Sym):
        return x.mode in ("I", "Q")
    if isinstance(x, Fraction):
        return type(x.numerator) is int and type(x.denominator) is int
    return isinstance(x, int) and not isinstance(x, bool)


# ------------------------------------------------------------------ harness context

class PreconditionNotMet(Exception):
    pass


class CalleePre(AssertionError):
    """raised by a contract stub when the caller violates the callee's precondition: a legitimate
    obligation failure of the caller (every callee precondition is a proof obligation of the caller)."""


class HarnessBug(Exception):
    pass


class ClauseFailed(Exception):
    pass


class H:
    def __init__(self, harness, mode, tier="quick", values=None, seed=0, clause_timeout_ms=20000):
        self.harness = harness
        self.mode = mode
        self.tier = tier
        self.values = values or {}
        self.seed = seed
        self.clause_timeout_ms = clause_timeout_ms
        self.vars = {}  # name -> (z3 const, mode)
        self.clauses = {}  # clause -> dict(status, vcs, discharged, time, model, detail)
        self.conc_results = {}  # clause -> bool (conc mode)
        self.conc_details = {}
        self.notes = []
        self.evals = 0
        self.nontrivial = set()
        self.samples = []
        self.solver_s = 0.0
        self.queries = 0
        self.trusted = set()
        self.assumed = set()
        self.lemmas = set()
        self._stubs = []
        self.findings = []

    # ---- inputs
    @property
    def sym(self):
        return self.mode == "sym"

    def real(self, name, mode="Q"):
        if self.sym:
            v = z3.Real(name)
            self.vars[name] = (v, mode)
            return Sym(v, mode)
        val = self.values.get(name, Fraction(0))
        if not isinstance(val, Fraction):
            val = Fraction(val)
        if mode == "F":
            return float(val)
        if mode == "I":
            if val.denominator != 1:
                raise PreconditionNotMet(f"{name} must be an integer")
            return int(val)
        return val

    def reals(self, names, mode="Q"):
        return [self.real(n, mode) for n in names.split()]

    def int(self, name):
        if self.sym:
            v = z3.Int(name)
            self.vars[name] = (v, "I")
            return Sym(z3.ToReal(v), "I")
        val = Fraction(self.values.get(name, 0))
        if val.denominator != 1:
            raise PreconditionNotMet(f"{name} must be an integer")
        return int(val)

    def point(self, name, mode="Q"):
        return (self.real(name + "x", mode), self.real(name + "y", mode))

    def points(self, prefix, n, mode="Q"):
        return [self.point(f"{prefix}{i}", mode) for i in range(n)]

    # ---- logic
    def assume(self, cond):
        if self.sym:
            Engine.cur.assume(T(cond) if not isinstance(cond, bool) else cond)
        else:
            if not bool(cond):
                raise PreconditionNotMet("assumption false on concrete input")

    def trust(self, what):
        self.trusted.add(what)

    def assumed_contract(self, what):
        self.assumed.add(what)

    def lemma(self, what):
        self.lemmas.add(what)

    def note(self, text):
        if text not in self.notes:
            self.notes.append(text)

    def step(self, clause, cond):
        """assert-then-assume: prove `cond` as an obligation, then use it as a lemma on this path."""
        ok = self.ensure(clause, cond)
        if self.sym and ok and not isinstance(cond, bool):
            Engine.cur.assume(T(cond))
        return ok

    def ensure(self, clause, cond, detail=None, free=False):
        """free=True: discharge the goal *without* the path hypotheses (a stronger statement; used for goals that
        are unconditional identities, so that unrelated nonlinear hypotheses cannot slow the solver down)."""
        if self.sym:
            return self._ensure_sym(clause, cond, detail, free)
        else:
            ok = bool(cond)
            prev = self.conc_results.get(clause, True)
            self.conc_results[clause] = prev and ok
            if not ok and clause not in self.conc_details:
                self.conc_details[clause] = _render(detail() if callable(detail) else detail)
            return ok

    def _rec(self, clause):
        return self.clauses.setdefault(
            clause, dict(status="proved", vcs=0, discharged=0, time=0.0, model=None, detail=None, trivial=0)
        )

    def _ensure_sym(self, clause, cond, detail, free=False):
        eng = Engine.cur
        rec = self._rec(clause)
        rec["vcs"] += 1
        if isinstance(cond, bool) or type(cond).__name__ == "bool_":
            if cond:
                rec["discharged"] += 1
                rec["trivial"] += 1
                return True
            goal = z3.BoolVal(False)
        else:
            goal = T(cond)
        hyps = [] if free else eng.hyps()
        st, model, dt = symx.check_staged(hyps, goal, self.clause_timeout_ms)
        if free and st != "unsat":
            st, model, dt2 = symx.check(eng.hyps(), goal, self.clause_timeout_ms)  # not an identity after all: decide it in context
            dt += dt2
        self.queries += 1
        self.solver_s += dt
        rec["time"] += dt
        rec["tmax"] = max(rec.get("tmax", 0.0), dt)
        if st == "unsat":
            rec["discharged"] += 1
            return True
        elif st == "sat":
            if self.harness.abstract:
                more = rec.setdefault("all_counter_models", [])
                if len(more) < 6:
                    more.append(_render(sorted((str(d.name()), str(model[d])) for d in model.decls() if d.arity() == 0)))
            if rec["status"] != "refuted":
                rec["status"] = "refuted"
                rec["model"] = self._model_values(model)
                rec["detail"] = _render(detail) if detail is not None and not callable(detail) else None
                if rec["detail"] is None and self.harness.abstract:
                    rec["detail"] = "solver counter-model (abstract): " + rec["all_counter_models"][0]
                rec["path"] = len(eng.pc)
            return False
        else:
            # second opinion on unknowns
            try:
                st2, dt2 = symx.check_cvc5(eng.hyps(), goal, self.clause_timeout_ms)
            except Exception as e:  # cvc5 front-end failure is never a verdict
                st2, dt2 = "unknown", 0.0
            self.solver_s += dt2
            if st2 == "unsat":
                rec["discharged"] += 1
                rec["cvc5"] = rec.get("cvc5", 0) + 1
                return True
            elif rec["status"] == "proved":
                rec["status"] = "unknown"
            return False

    def _model_values(self, model):
        out = {}
        exact = True
        for name, (v, mode) in self.vars.items():
            val = model.eval(v, model_completion=True)
            try:
                fr, ex = symx.z3val_to_fraction(val)
            except Exception:
                fr, ex = Fraction(0), False
            exact = exact and ex
            out[name] = str(fr)
        out["__exact__"] = exact
        return out

    def fail_path(self, clause, why):
        """an unexpected exception on a feasible path."""
        eng = Engine.cur
        rec = self._rec(clause)
        rec["vcs"] += 1
        st, model, dt = symx.check(eng.hyps(), z3.BoolVal(False), self.clause_timeout_ms)
        self.queries += 1
        self.solver_s += dt
        if st == "sat":
            if rec["status"] != "refuted":
                rec["status"] = "refuted"
                rec["model"] = self._model_values(model)
                rec["detail"] = why
        elif st == "unsat":
            rec["discharged"] += 1  # path infeasible after all
        elif rec["status"] == "proved":
            rec["status"] = "unknown"
            rec["detail"] = why

    # ---- calling the code under contract
    def call(self, fn, *a, **k):
        """returns (value, exception).  Engine control exceptions pass through."""
        try:
            return fn(*a, **k), None
        except (Infeasible, Unsupported, PathBudget, PreconditionNotMet, _Alarm):
            raise
        except BaseException as e:  # noqa: BLE001 - exceptional postconditions are part of contracts
            if isinstance(e, (SystemExit,)):
                raise
            return None, e

    @contextmanager
    def stubs(self, patches, also_concrete=False):
        """declared contract boundaries (2.1 item 3): {(owner, attr): replacement}.  Only in symbolic
        mode; the concrete back end runs the real callees (unless the harness asks for the same
        boundary in its concrete cross-check: the stub must then be plain Python)."""
        saved = []
        if self.sym or also_concrete:
            for (owner, attr), repl in patches.items():
                d = owner.__dict__
                saved.append((owner, attr, d.get(attr, symx._MISSING)))
                setattr(owner, attr, repl)
        try:
            yield
        finally:
            for owner, attr, old in reversed(saved):
                if old is symx._MISSING:
                    try:
                        delattr(owner, attr)
                    except AttributeError:
                        pass
                else:
                    setattr(owner, attr, old)

    def finding(self, key, what):
        """a failure whose *mechanism* matches a recorded defect (cli checks the key against known_findings.json;
        an unlisted key is a violation)."""
        if not any(f["key"] == key for f in self.findings):
            self.findings.append(dict(key=key, what=_render(what)))

    # ---- bounded back end bookkeeping
    def case(self, key=None, nontrivial=True):
        self.evals += 1
        if nontrivial and key is not None:
            self.nontrivial.add(key)

    def sample(self, s):
        if len(self.samples) < 5:
            self.samples.append(_render(s))


def _render(x):
    if x is None:
        return None
    try:
        return str(x)[:2000]
    except Exception:
        return "<unprintable>"


class _Alarm(BaseException):
    pass


class OpTimeout(Exception):
    """a single library operation exceeded its watchdog (reported as 'does not return', not as undecided)"""


@contextmanager
def watchdog(seconds):
    """per-operation watchdog nested inside the harness budget (signal.setitimer based)."""
    t0 = time.time()
    fired = {"me": False}

    def on(signum, frame):
        fired["me"] = True
        raise OpTimeout(f"operation did not return within {seconds}s")

    old_handler = signal.signal(signal.SIGALRM, on)
    old_delay, _ = signal.setitimer(signal.ITIMER_REAL, seconds)
    try:
        yield
    finally:
        signal.setitimer(signal.ITIMER_REAL, 0)
        signal.signal(signal.SIGALRM, old_handler)
        if old_delay:
            rest = old_delay - (time.time() - t0)
            signal.setitimer(signal.ITIMER_REAL, max(rest, 0.01))


def _on_alarm(signum, frame):
    raise _Alarm()


# ------------------------------------------------------------------ running

def run_proof(harness: Harness, tier="quick", seed=0, crosscheck=3):
    """Symbolic run of one proof harness: enumerate paths, discharge clauses, cross-check the
    engine against CPython, replay refutations natively."""
    t0 = time.time()
    out = dict(name=harness.name, prop=harness.prop, kind="proof", funcs=harness.funcs, note=harness.note,
               expect=harness.expect, abstract=harness.abstract)
    ctm = 20000 if tier == "quick" else 120000
    h = H(harness, "sym", tier, seed=seed, clause_timeout_ms=ctm)
    eng = Engine(max_paths=harness.max_paths)
    path_models = []
    npaths = {"ret": 0, "exc": 0, "unsupported": 0}
    unsupported = []

    def one_path():
        try:
            harness.fn(h)
        except (Infeasible, Unsupported, PathBudget, _Alarm):
            raise
        except PreconditionNotMet:
            raise Infeasible()
        except BaseException as e:  # noqa: BLE001
            tb = traceback.extract_tb(e.__traceback__)
            site = next((f"{f.filename.split('/')[-1]}:{f.lineno} in {f.name}" for f in reversed(tb)
                         if "/shapepy/" in f.filename), "harness")
            inner = tb[-1].filename if tb else ""
            if not isinstance(e, CalleePre) and ("/vfw/" in inner or "/z3/" in inner or site == "harness"):
                raise HarnessBug(f"{type(e).__name__}: {e} at {inner.split('/')[-1]}:{tb[-1].lineno if tb else 0} (called from {site})") from e
            h.fail_path("no-unexpected-exception", f"{type(e).__name__}: {e} at {site}")
            npaths["exc"] += 1
            return "exc"
        for d in eng.dep_violations:
            h.fail_path("dependency-precondition", d)
        # keep a model of this path for the CPython cross-check (preferably one with small denominators: A2)
        if len(path_models) < crosscheck:
            st, model, dt = symx.check(eng.hyps(), z3.BoolVal(False), 5000)
            if st == "sat":
                vals = h._model_values(model)
                path_models.append(_nice_model(h, eng.hyps(), vals))
        return "ret"

    symx.install()
    status = None
    try:
        try:
            _, paths = symx.explore(one_path, eng)
            for kind, val in paths:
                if kind == "unsupported":
                    npaths["unsupported"] += 1
                    unsupported.append(str(val))
                elif val == "ret":
                    npaths["ret"] += 1
        except PathBudget as e:
            status = "undecided"
            out["reason"] = str(e)
    finally:
        symx.uninstall()
        Engine.cur = None

    out["paths"] = npaths
    out["clauses"] = {}
    vcs = disc = 0
    worst = "proved"
    for cname, rec in h.clauses.items():
        out["clauses"][cname] = {k: rec[k] for k in ("status", "vcs", "discharged", "trivial", "detail", "model", "all_counter_models", "tmax") if k in rec}
        out["clauses"][cname]["time"] = round(rec["time"], 4)
        if "cvc5" in rec:
            out["clauses"][cname]["cvc5"] = rec["cvc5"]
        vcs += rec["vcs"]
        disc += rec["discharged"]
        if rec["status"] == "refuted":
            worst = "refuted"
        elif rec["status"] == "unknown" and worst != "refuted":
            worst = "undecided"
    if status is None:
        status = worst
    if unsupported and status == "proved":
        status = "undecided"
        out["reason"] = "unsupported: " + "; ".join(sorted(set(unsupported))[:3])
    if status == "proved" and (vcs == 0 or npaths["ret"] == 0):
        status = "undecided"
        out["reason"] = "vacuous: no obligation generated or no normally returning path"
    out.update(vcs=vcs, discharged=disc, queries=h.queries + eng.nchecks, feas_unknown=eng.unknowns,
               solver_s=round(h.solver_s + eng.solver_s, 3), shims=sorted(eng.shims_hit),
               trusted=sorted(h.trusted), assumed=sorted(h.assumed), lemmas=sorted(h.lemmas), notes=h.notes)

    # ---- engine cross-check against CPython (2.8)
    xc = dict(models=len(path_models), ok=0, skipped=0, mismatch=[])
    if not harness.abstract:
        for vals in path_models:
            if not vals.get("__exact__", True):
                xc["skipped"] += 1
                continue
            if any(Fraction(v).denominator > 10**9 for k, v in vals.items() if not k.startswith("__")):
                xc["skipped"] += 1  # outside A2: Point2D would round this input through limit_denominator(10**9)
                xc["skipped_outside_A2"] = xc.get("skipped_outside_A2", 0) + 1
                continue
            r = run_concrete(harness, vals, tier)
            if r["outcome"] == "precondition":
                xc["skipped"] += 1
                continue
            bad = [c for c, ok in r["clauses"].items()
                   if not ok and h.clauses.get(c, {}).get("status") == "proved"]
            if r["outcome"] == "exception" and h.clauses.get("no-unexpected-exception", {"status": "proved"})["status"] == "proved":
                bad.append("exception:" + str(r.get("error")))
            if bad:
                xc["mismatch"].append(dict(values=vals, clauses=bad))
            else:
                xc["ok"] += 1
    out["crosscheck"] = xc
    if xc["mismatch"] and status == "proved":
        status = "engine-mismatch"

    # ---- native replay of refutations (2.6)
    if status == "refuted":
        reps = []
        for cname, rec in h.clauses.items():
            if rec["status"] != "refuted":
                continue
            rep = dict(clause=cname, model=rec["model"], detail=rec.get("detail"), reproduced=False)
            if not harness.abstract and rec["model"] is not None:
                r = run_concrete(harness, rec["model"], tier)
                rep["native"] = r
                if cname == "no-unexpected-exception":
                    rep["reproduced"] = r["outcome"] == "exception"
                elif cname == "dependency-precondition":
                    rep["reproduced"] = True  # witnessed by the concrete call itself
                else:
                    rep["reproduced"] = r["clauses"].get(cname) is False
                if not rep["reproduced"]:
                    # the counter-model is abstract (uninterpreted ghost functions) or inexact: search the
                    # same clause on concrete inputs (seeded small rationals) -- DESIGN 2.6
                    found = search_concrete(harness, list(rec["model"].keys()), cname, tier, seed)
                    if found is not None:
                        rep["model_abstract"] = rec["model"]
                        rep["model"], rep["native"] = found
                        rep["reproduced"] = True
                        rep["found_by"] = "concrete search over seeded small rationals"
            reps.append(rep)
        out["refutations"] = reps
    out["status"] = status
    out["wall_s"] = round(time.time() - t0, 3)
    return out


def _nice_model(h, hyps, vals):
    """try to replace a solver model by one with small denominators that still satisfies the path hypotheses
    (checked by substitution); falls back to the original model"""
    try:
        if all(Fraction(v).denominator <= 10**6 for k, v in vals.items() if not k.startswith("__")):
            return vals
        for bound in (100, 10**4, 10**6):
            cand = {k: (str(Fraction(v).limit_denominator(bound)) if not k.startswith("__") else v) for k, v in vals.items()}
            subs = []
            for name, (var, mode) in h.vars.items():
                fr = Fraction(cand[name])
                subs.append((var, z3.IntVal(int(fr)) if var.sort() == z3.IntSort() else z3.Q(fr.numerator, fr.denominator)))
            ok = True
            for c in hyps:
                r = z3.simplify(z3.substitute(c, *subs))
                if not z3.is_true(r):
                    ok = False
                    break
            if ok:
                return cand
    except Exception:  # noqa: BLE001
        pass
    return vals


def run_concrete(harness: Harness, values, tier="quick"):
    """Run the harness on the real, unshimmed code with concrete inputs."""
    symx.uninstall()
    prev = Engine.cur
    Engine.cur = None
    h = H(harness, "conc", tier, values={k: v for k, v in values.items() if not k.startswith("__")})
    res = dict(outcome="ok", clauses={}, details={})
    try:
        harness.fn(h)
    except PreconditionNotMet as e:
        res["outcome"] = "precondition"
        res["error"] = str(e)
    except _Alarm:
        raise
    except BaseException as e:  # noqa: BLE001
        res["outcome"] = "exception"
        res["error"] = f"{type(e).__name__}: {e}"
        tb = traceback.extract_tb(e.__traceback__)
        res["site"] = next((f"{f.filename.split('/')[-1]}:{f.lineno} in {f.name}" for f in reversed(tb)
                            if "/shapepy/" in f.filename), "harness")
    finally:
        Engine.cur = prev
    res["clauses"] = dict(h.conc_results)
    res["details"] = dict(h.conc_details)
    return res


def search_concrete(harness, names, clause, tier, seed, tries=300):
    import random

    rnd = random.Random(seed + 4242)
    names = [n for n in names if not n.startswith("__")]
    pool = [Fraction(a, b) for a in range(-6, 7) for b in (1, 2, 3)]
    for t in range(tries):
        vals = {n: str(rnd.choice(pool) if t % 3 else Fraction(rnd.randint(-9, 9))) for n in names}
        try:
            r = run_concrete(harness, vals, tier)
        except _Alarm:
            raise
        except BaseException:  # noqa: BLE001
            continue
        if clause == "no-unexpected-exception":
            if r["outcome"] == "exception":
                return vals, r
        elif r["outcome"] != "precondition" and r["clauses"].get(clause) is False:
            return vals, r
    return None


def run_bounded(harness: Harness, tier="quick", seed=0):
    """Bounded stand-in (engine RC): concrete inputs, real functions, contracts evaluated at run time."""
    t0 = time.time()
    symx.uninstall()
    h = H(harness, "conc", tier, seed=seed)
    out = dict(name=harness.name, prop=harness.prop, kind="bounded", funcs=harness.funcs, note=harness.note,
               bound=harness.bound, expect=harness.expect)
    try:
        harness.fn(h)
        status = "held"
    except _Alarm:
        raise
    except BaseException as e:  # noqa: BLE001
        status = "error"
        out["error"] = f"{type(e).__name__}: {e}"
        out["traceback"] = traceback.format_exc()[-3000:]
    fails = {c: h.conc_details.get(c) for c, ok in h.conc_results.items() if not ok}
    if fails and status == "held":
        status = "failed"
    out.update(status=status, clauses={c: ("held" if ok else "failed") for c, ok in h.conc_results.items()},
               failures=fails, evaluations=h.evals, distinct_nontrivial=len(h.nontrivial), samples=h.samples,
               notes=h.notes, findings=getattr(h, "findings", []), wall_s=round(time.time() - t0, 3))
    return out


def run_task(name, tier="quick", seed=0, budget_s=None):
    """Entry point of a pool worker."""
    harness = REGISTRY[name]
    budget = budget_s or ((harness.timeout or 240) * (1 if tier == "quick" else 5))
    old = signal.signal(signal.SIGALRM, _on_alarm)
    signal.alarm(int(budget))
    t0 = time.time()
    try:
        if harness.kind == "proof":
            return run_proof(harness, tier, seed, crosscheck=3 if tier == "quick" else 8)
        return run_bounded(harness, tier, seed)
    except _Alarm:
        symx.uninstall()
        return dict(name=name, prop=harness.prop, kind=harness.kind, funcs=harness.funcs, status="undecided",
                    reason=f"wall-clock budget of {budget}s exceeded", wall_s=round(time.time() - t0, 3),
                    expect=harness.expect, note=harness.note)
    except BaseException as e:  # noqa: BLE001
        symx.uninstall()
        return dict(name=name, prop=harness.prop, kind=harness.kind, funcs=harness.funcs, status="crash",
                    reason=f"{type(e).__name__}: {e}", traceback=traceback.format_exc()[-3000:],
                    wall_s=round(time.time() - t0, 3), expect=harness.expect, note=harness.note)
    finally:
        signal.alarm(0)
        signal.signal(signal.SIGALRM, old)
