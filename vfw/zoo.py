"""Input family ("zoo") of the bounded stand-in (DESIGN 5): deterministic enumeration first, then
VERIF_SEED-seeded sampling.  Grid regions live on three mutually offset lattices (offsets 0, 1, 2 fine
cells of pitch 1/3), so boundaries of operands on different lattices only cross transversally."""
from __future__ import annotations

import random
from fractions import Fraction

from .oracle import P, Desc, GridRegion

BASE = {
    "unit": [(0, 0)],
    "square2": [(0, 0), (1, 0), (0, 1), (1, 1)],
    "bar3": [(0, 0), (1, 0), (2, 0)],
    "barV": [(0, 0), (0, 1), (0, 2)],
    "barV4": [(0, 0), (0, 1), (0, 2), (0, 3)],
    "L": [(0, 0), (1, 0), (0, 1)],
    "L4": [(0, 0), (1, 0), (2, 0), (0, 1), (0, 2)],
    "U": [(0, 0), (1, 0), (2, 0), (0, 1), (2, 1)],
    "T": [(0, 1), (1, 1), (2, 1), (1, 0)],
    "ring": [(a, b) for a in range(3) for b in range(3) if (a, b) != (1, 1)],
    "two": [(0, 0), (2, 0)],
    "two-far": [(0, 0), (3, 2)],
    "ring+island": [(a, b) for a in range(5) for b in range(5) if a in (0, 4) or b in (0, 4)] + [(2, 2)],
    "three": [(0, 0), (2, 0), (0, 2)],
    "big3": [(a, b) for a in range(3) for b in range(3)],
    "big4": [(a, b) for a in range(4) for b in range(4)],
    "ring2holes": [(a, b) for a in range(5) for b in range(3) if (a, b) not in ((1, 1), (3, 1))],
}


def region(name, offset=0, shift=(0, 0), complement=False):
    cells = [(a + shift[0], b + shift[1]) for a, b in BASE[name]]
    r = GridRegion.from_big_cells(cells, offset)
    return ~r if complement else r


def random_region(rnd, offset, size=4, fill=0.5, tries=50):
    for _ in range(tries):
        cells = [(a, b) for a in range(size) for b in range(size) if rnd.random() < fill]
        if not cells:
            continue
        r = GridRegion.from_big_cells(cells, offset)
        if not r.has_pinch():
            return r, cells
    return region("square2", offset), BASE["square2"]


def grid_pairs(tier, seed):
    """[(label, A, B)] with A on lattice 0 and B on lattice 1 (transversal crossings only)"""
    out = []
    names_a = ["square2", "L", "U", "ring", "two", "big3", "T"]
    names_b = ["square2", "unit", "bar3", "L", "ring", "two"]
    if tier != "quick":
        names_a += ["L4", "ring+island", "three", "big4", "ring2holes"]
        names_b += ["U", "T", "three", "big3"]
    shifts = [(0, 0), (1, 0), (1, 1), (-1, 1), (3, 0)] if tier == "quick" else [(0, 0), (1, 0), (1, 1), (-1, 1), (3, 0), (0, 2), (2, -1), (-2, -2), (5, 5)]
    k = 0
    for na in names_a:
        for nb in names_b:
            for sh in shifts:
                k += 1
                if tier == "quick" and (k + seed) % 5:
                    continue
                out.append((f"{na}|{nb}@{sh}", region(na, 0), region(nb, 1, sh)))
    rnd = random.Random(seed * 7919 + 17)
    for i in range(10 if tier == "quick" else 60):
        a, ca = random_region(rnd, 0)
        b, cb = random_region(rnd, 1)
        out.append((f"rand{i}:{sorted(ca)}|{sorted(cb)}", a, b))
    # one edge crossed twice by the other operand ("plus" configurations) -- exercises the split bookkeeping
    for na, nb, sh in (("bar3", "barV", (1, -1)), ("big3", "barV4", (1, -1)), ("ring", "barV4", (0, -1)), ("U", "bar3", (0, 1)), ("bar3", "U", (0, -1))):
        a, b = region(na, 0), region(nb, 1, sh)
        out.append((f"plus:{na}|{nb}@{sh}", a, b))
        out.append((f"plus:~{na}|{nb}@{sh}", ~a, b))
    # unbounded operands
    for na, nb, sh in (("square2", "square2", (1, 1)), ("ring", "unit", (1, 1)), ("L", "bar3", (0, 0)), ("big3", "square2", (0, 0)), ("two", "big3", (-1, -1)), ("U", "unit", (1, 1))):
        a, b = region(na, 0), region(nb, 1, sh)
        out.append((f"~{na}|{nb}@{sh}", ~a, b))
        out.append((f"{na}|~{nb}@{sh}", a, ~b))
        out.append((f"~{na}|~{nb}@{sh}", ~a, ~b))
    return out


def grid_triples(tier, seed):
    out = []
    base = [("square2", "square2", "square2", (1, 1), (0, 1)), ("ring", "bar3", "L", (0, 1), (1, 0)), ("U", "unit", "two", (1, 1), (0, 0)),
            ("big3", "ring", "square2", (0, 0), (1, 1)), ("L", "L", "L", (1, 0), (0, 1))]
    if tier != "quick":
        base += [("T", "two", "ring", (0, 0), (0, 0)), ("big4", "ring", "three", (0, 0), (1, 1)), ("ring+island", "bar3", "square2", (1, 2), (2, 1))]
    for na, nb, nc, sb, sc in base:
        out.append((f"{na},{nb}@{sb},{nc}@{sc}", region(na, 0), region(nb, 1, sb), region(nc, 2, sc)))
    return out


# ------------------------------------------------------------------ curved families (rational control points)

def blob2(cx=0, cy=0, r=2):
    """rounded square: four quadratic arcs with rational control points"""
    cx, cy, r = Fraction(cx), Fraction(cy), Fraction(r)
    pts = [(cx + r, cy), (cx, cy + r), (cx - r, cy), (cx, cy - r)]
    cor = [(cx + r, cy + r), (cx - r, cy + r), (cx - r, cy - r), (cx + r, cy - r)]
    return [[pts[i], cor[i], pts[(i + 1) % 4]] for i in range(4)]


def blob3(cx=0, cy=0, r=2):
    """four cubic arcs (circle-like, kappa = 5/9)"""
    cx, cy, r = Fraction(cx), Fraction(cy), Fraction(r)
    k = r * Fraction(5, 9)
    P_ = [(cx + r, cy), (cx, cy + r), (cx - r, cy), (cx, cy - r)]
    c1 = [(cx + r, cy + k), (cx - k, cy + r), (cx - r, cy - k), (cx + k, cy - r)]
    c2 = [(cx + k, cy + r), (cx - r, cy + k), (cx - k, cy - r), (cx + r, cy - k)]
    return [[P_[i], c1[i], c2[i], P_[(i + 1) % 4]] for i in range(4)]


def mixed123(cx=0, cy=0, s=1):
    """line, quadratic, cubic closed chain"""
    cx, cy, s = Fraction(cx), Fraction(cy), Fraction(s)
    a, b, c = (cx, cy), (cx + 4 * s, cy), (cx + 4 * s, cy + 3 * s)
    return [[a, b], [b, (cx + 6 * s, cy + 2 * s), c], [c, (cx + 2 * s, cy + 5 * s), (cx - 2 * s, cy + 3 * s), a]]


def circle_arcs(cx, cy, r, n=16):
    """n quadratic arcs approximating a circle (control points as exact Fractions of the float values)"""
    import math

    a = math.tau / n
    h = math.tan(a / 2)
    out = []
    for k in range(n):
        t0, t1 = k * a, (k + 1) * a
        p0 = (cx + r * math.cos(t0), cy + r * math.sin(t0))
        p2 = (cx + r * math.cos(t1), cy + r * math.sin(t1)) if k < n - 1 else (cx + r, cy + 0.0)
        pm = (cx + r * (math.cos(t0) - h * math.sin(t0)), cy + r * (math.sin(t0) + h * math.cos(t0)))
        out.append([tuple(map(Fraction, p0)), tuple(map(Fraction, pm)), tuple(map(Fraction, p2))])
    # share junction values exactly
    for k in range(n):
        out[k][2] = out[(k + 1) % n][0]
    return out


def poly(*pts):
    pts = [(Fraction(x), Fraction(y)) for x, y in pts]
    return [[pts[i], pts[(i + 1) % len(pts)]] for i in range(len(pts))]


def rev(curve):
    return [seg[::-1] for seg in curve[::-1]]


def curved_simple(tier):
    out = [("blob2", blob2()), ("blob3", blob3()), ("mixed123", mixed123()), ("blob2-cw", rev(blob2())), ("tri", poly((0, 0), (5, 0), (1, 4))),
           ("blob3-small", blob3(1, 1, Fraction(3, 4)))]
    if tier != "quick":
        out += [("blob2-big", blob2(1, -1, 5)), ("mixed123-cw", rev(mixed123())), ("nonconvex", poly((0, 0), (6, 0), (6, 5), (3, 1), (0, 5)))]
    return out


def curved_pairs(tier):
    """pairs of curved simple regions whose boundaries cross transversally (2 or 4 crossings) or are nested/disjoint"""
    out = [
        ("blob2 x blob2 shifted", blob2(), blob2(Fraction(3, 2), Fraction(1, 3))),
        ("blob2 x blob3", blob2(), blob3(2, 1, 2)),
        ("blob3 x tri", blob3(), poly((-1, -3), (4, Fraction(1, 2)), (-1, 3))),
        ("blob2 nested", blob2(0, 0, 3), blob2(Fraction(1, 7), Fraction(1, 5), 1)),
        ("blob2 disjoint", blob2(), blob2(7, 1, 2)),
        ("mixed x blob2", mixed123(), blob2(3, 1, 2)),
        ("circle r=1 x circle r=3", circle_arcs(0, 0, 1.0), circle_arcs(3.2, 0.3, 3.0)),
    ]
    if tier != "quick":
        out += [("blob3 x blob3 4 crossings", blob3(0, 0, 3), [[(x * Fraction(7, 4), y * Fraction(4, 7) * 3 / 3) for x, y in seg] for seg in blob3(0, 0, 3)]),
                ("tri x tri", poly((0, 0), (6, 0), (3, 5)), poly((0, 3), (3, -2), (6, 3))),
                ("blob2 x mixed cw", blob2(1, 1, 3), rev(mixed123()))]
    return out


def generic_points(rnd, box, n):
    """rational points with large prime denominators (avoid vertices, tangencies and lattice lines)"""
    (x0, y0), (x1, y1) = box
    out = []
    for _ in range(n):
        out.append((Fraction(rnd.randint(int(x0 * 1009), int(x1 * 1009)), 1009) + Fraction(1, 7919), Fraction(rnd.randint(int(y0 * 1013), int(y1 * 1013)), 1013) + Fraction(1, 7907)))
    return out
