"""Independent exact oracles for the bounded stand-in (DESIGN 5).  No shapepy code is used here.

1. GridRegion: regions that are unions of fine lattice cells (pitch 1/P), possibly unbounded.  Set
   algebra, membership, exact area / moments, boundary loops (region on the left), components and
   holes are computed on the cell sets -- the ground truth for boolean operators on rectilinear
   polygons whose lattices are mutually offset (so all boundary crossings are transversal).
2. Exact winding numbers about a point for closed chains of Bezier segments of degree <= 3 with
   rational control points (Sturm root isolation of y(t) = py, exact sign of x(t) - px).
"""
from __future__ import annotations

from fractions import Fraction
from math import comb

P = 3  # fine cells per unit length
W = 24  # window half-width in fine cells: cells i in [-W, W)


def F(x):
    return x if isinstance(x, Fraction) else Fraction(x)


# ------------------------------------------------------------------ grid regions

class GridRegion:
    def __init__(self, cells, unbounded=False):
        self.cells = frozenset(cells)
        self.unbounded = bool(unbounded)

    @staticmethod
    def from_big_cells(big, offset):
        """big: iterable of (a, b) unit cells on the lattice shifted by offset fine cells (0 <= offset < P)"""
        cells = set()
        for a, b in big:
            for i in range(P):
                for j in range(P):
                    cells.add((P * a + offset + i, P * b + offset + j))
        return GridRegion(cells)

    # ---- algebra
    def __or__(self, o):
        if self.unbounded or o.unbounded:
            return ~((~self) & (~o))
        return GridRegion(self.cells | o.cells)

    def __and__(self, o):
        if not self.unbounded and not o.unbounded:
            return GridRegion(self.cells & o.cells)
        if self.unbounded and o.unbounded:
            return GridRegion(self.cells & o.cells, True)
        a, b = (self, o) if o.unbounded else (o, self)  # a bounded, b unbounded
        return GridRegion(a.cells & b.cells)

    def __invert__(self):
        allc = {(i, j) for i in range(-W, W) for j in range(-W, W)}
        return GridRegion(allc - self.cells, not self.unbounded)

    def __sub__(self, o):
        return self & (~o)

    def __xor__(self, o):
        return (self - o) | (o - self)

    def __eq__(self, o):
        return self.cells == o.cells and self.unbounded == o.unbounded

    def __hash__(self):
        return hash((self.cells, self.unbounded))

    def is_empty(self):
        return not self.cells and not self.unbounded

    def is_whole(self):
        return self.unbounded and len(self.cells) == (2 * W) ** 2

    def issubset(self, o):
        if self.unbounded and not o.unbounded:
            return False
        return self.cells <= o.cells if (self.unbounded == o.unbounded or not self.unbounded) else False

    def fits(self, margin=2):
        """all boundaries stay away from the window border"""
        ref = (~self).cells if self.unbounded else self.cells
        return all(-W + margin <= i < W - margin and -W + margin <= j < W - margin for i, j in ref)

    # ---- membership (p strictly inside a fine cell)
    def contains(self, p):
        x, y = F(p[0]) * P, F(p[1]) * P
        i, j = x.__floor__(), y.__floor__()
        if x == i or y == j:
            return None  # on a lattice line: undefined for the oracle
        if -W <= i < W and -W <= j < W:
            return (i, j) in self.cells
        return self.unbounded

    def cell_centres(self, pad=1):
        ref = self.cells if not self.unbounded else (~self).cells
        if not ref:
            return [(Fraction(1, 2 * P), Fraction(1, 2 * P))]
        i0 = min(i for i, _ in ref) - pad
        i1 = max(i for i, _ in ref) + pad
        j0 = min(j for _, j in ref) - pad
        j1 = max(j for _, j in ref) + pad
        return [(Fraction(2 * i + 1, 2 * P), Fraction(2 * j + 1, 2 * P)) for i in range(i0, i1 + 1) for j in range(j0, j1 + 1)]

    # ---- measures (library convention: unbounded = minus the bounded complement)
    def moment(self, a, b):
        if self.unbounded:
            return -(~self).moment(a, b)
        tot = Fraction(0)
        for i, j in self.cells:
            x0, x1 = Fraction(i, P), Fraction(i + 1, P)
            y0, y1 = Fraction(j, P), Fraction(j + 1, P)
            tot += (x1 ** (a + 1) - x0 ** (a + 1)) / (a + 1) * (y1 ** (b + 1) - y0 ** (b + 1)) / (b + 1)
        return tot

    def area(self):
        return self.moment(0, 0)

    # ---- structure
    def has_pinch(self):
        """some lattice vertex is touched by two diagonal cells only (boundary would not be a simple curve)"""
        ref = self.cells
        cand = set()
        for (i, j) in ref:
            cand.update({(i, j), (i + 1, j), (i, j + 1), (i + 1, j + 1)})
        for (vx, vy) in cand:
            a, b, c, d = (vx - 1, vy - 1) in ref, (vx, vy - 1) in ref, (vx - 1, vy) in ref, (vx, vy) in ref
            if (a and d and not b and not c) or (b and c and not a and not d):
                return True
        return False

    def loops(self):
        """boundary loops as vertex lists (Fractions), region on the left: outer loops counter-clockwise,
        holes clockwise.  Collinear vertices are merged."""
        if self.unbounded:
            return [lp[::-1] for lp in (~self).loops()]
        ref = self.cells
        nxt = {}
        for (i, j) in ref:
            if (i, j - 1) not in ref:
                nxt[(i, j)] = (i + 1, j)
            if (i + 1, j) not in ref:
                nxt[(i + 1, j)] = (i + 1, j + 1)
            if (i, j + 1) not in ref:
                nxt[(i + 1, j + 1)] = (i, j + 1)
            if (i - 1, j) not in ref:
                nxt[(i, j + 1)] = (i, j)
        # with no pinch points every boundary vertex has exactly one outgoing edge
        loops = []
        seen = set()
        for start in sorted(nxt):
            if start in seen:
                continue
            lp = []
            v = start
            while v not in seen:
                seen.add(v)
                lp.append(v)
                v = nxt[v]
            # merge collinear
            n = len(lp)
            out = []
            for k in range(n):
                a, b, c = lp[k - 1], lp[k], lp[(k + 1) % n]
                if (b[0] - a[0]) * (c[1] - b[1]) - (b[1] - a[1]) * (c[0] - b[0]) != 0:
                    out.append((Fraction(b[0], P), Fraction(b[1], P)))
            loops.append(out)
        return loops

    def components(self):
        """[(outer_loop_or_None, [hole loops])] -- connected components (4-connectivity; no pinch points)."""
        if self.unbounded:
            outer = self._outer_cells()
            allc = {(i, j) for i in range(-W, W) for j in range(-W, W)}
            filled = GridRegion(allc - outer)  # everything not connected to infinity: has no holes
            res = [(None, [lp[::-1] for lp in filled.loops()])]
            res.extend(GridRegion(self.cells - outer).components())  # bounded islands
            return res
        ref = set(self.cells)
        label = {}
        comps = []
        for c in sorted(ref):
            if c in label:
                continue
            stack = [c]
            label[c] = len(comps)
            cells = []
            while stack:
                x = stack.pop()
                cells.append(x)
                for d in ((1, 0), (-1, 0), (0, 1), (0, -1)):
                    y = (x[0] + d[0], x[1] + d[1])
                    if y in ref and y not in label:
                        label[y] = len(comps)
                        stack.append(y)
            comps.append(cells)
        res = []
        for cells in comps:
            lps = GridRegion(cells).loops()
            outer = [lp for lp in lps if _area2(lp) > 0]
            holes = [lp for lp in lps if _area2(lp) < 0]
            assert len(outer) == 1
            res.append((outer[0], holes))
        return res

    def _outer_cells(self):
        """cells of an unbounded region connected to infinity (flood fill from the window border)"""
        ref = self.cells
        seen = set()
        stack = [(i, j) for i in range(-W, W) for j in (-W, W - 1)] + [(i, j) for j in range(-W, W) for i in (-W, W - 1)]
        stack = [c for c in stack if c in ref]
        seen.update(stack)
        while stack:
            x = stack.pop()
            for d in ((1, 0), (-1, 0), (0, 1), (0, -1)):
                y = (x[0] + d[0], x[1] + d[1])
                if y in ref and y not in seen:
                    seen.add(y)
                    stack.append(y)
        return seen

    def __repr__(self):
        return f"GridRegion({len(self.cells)} cells, unbounded={self.unbounded})"


def _area2(loop):
    n = len(loop)
    return sum(loop[i][0] * loop[(i + 1) % n][1] - loop[i][1] * loop[(i + 1) % n][0] for i in range(n))


# ------------------------------------------------------------------ exact winding numbers (degree <= 3, rational data)

def _bern_to_mono(vals):
    n = len(vals) - 1
    out = [Fraction(0)] * (n + 1)
    for i, c in enumerate(vals):
        # C(n,i) t^i (1-t)^(n-i)
        for k in range(n - i + 1):
            out[i + k] += F(c) * comb(n, i) * comb(n - i, k) * (-1) ** k
    return out


def _peval(p, t):
    r = Fraction(0)
    for c in reversed(p):
        r = r * t + c
    return r


def _pder(p):
    return [i * p[i] for i in range(1, len(p))] or [Fraction(0)]


def _trim(p):
    p = list(p)
    while len(p) > 1 and p[-1] == 0:
        p.pop()
    return p


def _prem(a, b):
    a, b = _trim(a), _trim(b)
    while len(a) >= len(b) and any(a):
        k = a[-1] / b[-1]
        s = len(a) - len(b)
        for i, c in enumerate(b):
            a[i + s] -= k * c
        a = _trim(a[:-1]) if len(a) > 1 else [Fraction(0)]
        if a == [0]:
            break
    return a


def _sturm(p):
    seq = [_trim(p), _trim(_pder(p))]
    while True:
        r = _prem(seq[-2], seq[-1])
        if len(r) == 1 and r[0] == 0:
            break
        seq.append([-c for c in r])
        if len(seq[-1]) == 1:
            break
    return seq


def _sign_changes(seq, t):
    s = [(_peval(p, t) > 0) - (_peval(p, t) < 0) for p in seq]
    s = [x for x in s if x]
    return sum(1 for a, b in zip(s, s[1:]) if a != b)


def isolate_roots_01(p):
    """isolating intervals (lo, hi, sturm sequence) of the distinct real roots of p in [0, 1); None when p vanishes
    identically, has a root exactly at an end point, or a multiple root (degenerate sample for the caller)."""
    p = _trim(p)
    if len(p) == 1:
        return [] if p[0] != 0 else None
    if _peval(p, Fraction(0)) == 0 or _peval(p, Fraction(1)) == 0:
        return None
    seq = _sturm(p)
    if len(seq[-1]) > 1:  # gcd(p, p') non-constant: multiple root
        return None
    out = []
    stack = [(Fraction(0), Fraction(1))]
    while stack:
        lo, hi = stack.pop()
        n = _sign_changes(seq, lo) - _sign_changes(seq, hi)
        if n == 0:
            continue
        if n == 1:
            out.append((lo, hi))
            continue
        mid = (lo + hi) / 2
        if _peval(p, mid) == 0:
            mid = mid + (hi - lo) * Fraction(1, 1024)
            if _peval(p, mid) == 0:
                return None
        stack.append((lo, mid))
        stack.append((mid, hi))
    return sorted(out)


def real_roots_01(p, eps=Fraction(1, 10**12)):
    iso = isolate_roots_01(p)
    if iso is None:
        return None
    out = []
    for lo, hi in iso:
        lo, hi = _refine(_trim(p), lo, hi, eps)
        out.append((lo, hi))
    return out


def _refine(p, lo, hi, eps):
    slo = _peval(p, lo) > 0
    while hi - lo > eps:
        mid = (lo + hi) / 2
        v = _peval(p, mid)
        if v == 0:
            return mid, mid
        if (v > 0) == slo:
            lo = mid
        else:
            hi = mid
    return lo, hi


def winding_number(curve, p, margin=Fraction(1, 10**7)):
    """exact winding number of a closed chain of Bezier segments about p (ray to +x).  curve: list of control
    point lists.  Returns None when the sample is degenerate for this oracle (ray through a vertex, tangency, or p
    within `margin` of the curve along the ray)."""
    px, py = F(p[0]), F(p[1])
    w = 0
    for ctrl in curve:
        if len(ctrl) == 2:  # straight segment: closed form
            (x0, y0), (x1, y1) = ctrl
            if y0 == py or y1 == py:
                return None
            if (y0 < py) == (y1 < py):
                continue
            t = (py - y0) / (y1 - y0)
            x = x0 + t * (x1 - x0)
            if abs(x - px) <= margin:
                return None
            if x > px:
                w += 1 if y1 > y0 else -1
            continue
        cys = [c[1] for c in ctrl]
        cxs = [c[0] for c in ctrl]
        if py > max(cys) or py < min(cys) or px >= max(cxs):
            if py in (cys[0], cys[-1]):
                return None
            continue  # convex hull: no crossing of the ray with this segment
        xs = _bern_to_mono(cxs)
        ys = _bern_to_mono(cys)
        q = list(ys)
        q[0] -= py
        q = _trim(q)
        iso = isolate_roots_01(q)
        if iso is None:
            return None
        dy = _pder(ys)
        for lo, hi in iso:
            # refine until the side of x(t) - px is decided on the whole isolating interval
            width = Fraction(1, 2**20)
            while True:
                lo, hi = _refine(q, lo, hi, width)
                xa, xb = _peval(xs, lo), _peval(xs, hi)
                # x is monotone on tiny intervals up to O(width): decide with a safety margin
                if min(xa, xb) - px > margin and abs(xa - xb) < margin:
                    side = 1
                    break
                if px - max(xa, xb) > margin and abs(xa - xb) < margin:
                    side = -1
                    break
                if width < Fraction(1, 2**70):
                    return None
                width = width / 2**16
            if side > 0:
                t = (lo + hi) / 2
                d = _peval(dy, t)
                if abs(d) < Fraction(1, 10**9):
                    return None
                w += 1 if d > 0 else -1
    return w


def dist2_to_curve_lower_bound(curve, p, n=64):
    """cheap sampled squared distance from p to the curve (only used to pick samples away from boundaries)"""
    px, py = float(p[0]), float(p[1])
    best = float("inf")
    for ctrl in curve:
        xs = [float(c) for c in _bern_to_mono([c[0] for c in ctrl])]
        ys = [float(c) for c in _bern_to_mono([c[1] for c in ctrl])]
        for k in range(n + 1):
            t = k / n
            x = sum(c * t**i for i, c in enumerate(xs))
            y = sum(c * t**i for i, c in enumerate(ys))
            best = min(best, (x - px) ** 2 + (y - py) ** 2)
    return best


def curve_area(curve):
    """exact signed area: sum of int x dy over the segments"""
    tot = Fraction(0)
    for ctrl in curve:
        xs = _bern_to_mono([c[0] for c in ctrl])
        ys = _bern_to_mono([c[1] for c in ctrl])
        dy = _pder(ys)
        prod = [Fraction(0)] * (len(xs) + len(dy) - 1)
        for i, a in enumerate(xs):
            for j, b in enumerate(dy):
                prod[i + j] += a * b
        tot += sum(c / (i + 1) for i, c in enumerate(prod))
    return tot


def curve_moment(curve, a, b):
    """exact int_D x^a y^b dA by Green: 1/(a+1) * closed integral of x^(a+1) y^b dy"""
    tot = Fraction(0)
    for ctrl in curve:
        xs = _bern_to_mono([c[0] for c in ctrl])
        ys = _bern_to_mono([c[1] for c in ctrl])

        def mul(p, q):
            r = [Fraction(0)] * (len(p) + len(q) - 1)
            for i, u in enumerate(p):
                for j, v in enumerate(q):
                    r[i + j] += u * v
            return r

        prod = [Fraction(1)]
        for _ in range(a + 1):
            prod = mul(prod, xs)
        for _ in range(b):
            prod = mul(prod, ys)
        prod = mul(prod, _pder(ys))
        tot += sum(c / (i + 1) for i, c in enumerate(prod))
    return tot / (a + 1)


# ------------------------------------------------------------------ region denoted by a *description* (tree of curves)

class Desc:
    """description of a region, independent of library objects: kind in {'empty','whole','simple','all','any'}"""

    def __init__(self, kind, curve=None, parts=()):
        self.kind, self.curve, self.parts = kind, curve, tuple(parts)

    def contains(self, p):
        """True / False / None (degenerate sample or on/near a boundary).  A sample that is degenerate for the
        horizontal ray (ray through a vertex, tangency) is retried with the vertical ray (coordinates swapped)."""
        r = self._contains(p)
        if r is None and self.kind not in ("empty", "whole"):
            r = self.swapped()._contains((p[1], p[0]))
        return r

    def swapped(self):
        if not hasattr(self, "_sw"):
            if self.kind == "simple":
                self._sw = Desc("simple", [[(c[1], c[0]) for c in seg][::-1] for seg in self.curve[::-1]])
            else:
                self._sw = Desc(self.kind, parts=[q.swapped() for q in self.parts])
        return self._sw

    def _contains(self, p):
        if self.kind == "empty":
            return False
        if self.kind == "whole":
            return True
        if self.kind == "simple":
            w = winding_number(self.curve, p)
            if w is None:
                return None
            if not hasattr(self, "_ccw"):
                self._ccw = curve_area(self.curve) > 0
            ccw = self._ccw
            if ccw:
                return w == 1 if w in (0, 1) else None
            return w == 0 if w in (0, -1) else None
        vals = [q._contains(p) for q in self.parts]
        if any(v is None for v in vals):
            return None
        return all(vals) if self.kind == "all" else any(vals)

    def curves(self):
        if self.kind == "simple":
            return [self.curve]
        out = []
        for q in self.parts:
            out.extend(q.curves())
        return out
