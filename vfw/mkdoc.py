"""prints the functions-under-contract appendix of DESIGN.md from the harness registry"""
import sys, collections
from vfw import cli
cli._setup_path()
reg = cli.load_harnesses()
by = collections.defaultdict(lambda: {"proof": set(), "bounded": set()})
for n, h in reg.items():
    if h.expect == "refuted":
        continue
    fam = n.split("[")[0]
    for f in h.funcs:
        by[f][h.kind].add(fam)
print("| function | discharged obligations (harness families) | bounded stand-in |")
print("|---|---|---|")
for f in sorted(by):
    p, b = sorted(by[f]["proof"]), sorted(by[f]["bounded"])
    print(f"| `{f}` | {', '.join(p) or '-'} | {', '.join(b) or '-'} |")
print()
print(f"{len(reg)} harnesses: {sum(1 for h in reg.values() if h.kind=='proof')} proof, {sum(1 for h in reg.values() if h.kind=='bounded')} bounded; "
      f"{sum(1 for f in by if by[f]['proof'])} functions with discharged obligations, {sum(1 for f in by if not by[f]['proof'])} bounded only.")
